"""C13 - union dispatch shortcuts equal try-each-alternative semantics.

Decides: the by-type dispatch table is keyed consistently with what each
alternative's node accepts (or the shortcut is excluded for the mismatching
alternative); the shortcut is selected only when applicable; the sequential union
is first-success; serialization dispatch is by isinstance in declaration order.
"""
import ast
from typing import Dict, List, Optional, Set

from ..accept import accept_set
from ..model import AnalysisError
from ..nodes import DESER_MOD, SER_MOD, is_ve
from ..util import dotted, flatten_boolop, norm, short, walk_no_nested
from .common_counter import check_counters, counter_mutants

VISITOR = "apischema.deserialization.DeserializationMethodVisitor"
TAG_OF_KEY = {"list": "list", "dict": "dict", "int": "int", "float": "float", "str": "str", "bool": "bool", "NoneType": "none"}
KEY_OF_TAG = {v: k for k, v in TAG_OF_KEY.items()}


def node_classes_returned(model, factory_fn, visitor_mod, siblings=None, _seen=None) -> Dict[str, List[ast.Call]]:
    """node class name -> constructor calls in return position of a factory closure
    (wrappers such as VariadicTupleMethod(method) are followed to the wrapped local; a call of a sibling
    closure - `factory(constraints, ...)` inside a wrapping factory - to what that closure returns)."""
    out: Dict[str, List[ast.Call]] = {}
    assigns: Dict[str, List[ast.AST]] = {}
    siblings = siblings or {}
    _seen = _seen if _seen is not None else set()
    _seen.add(id(factory_fn))
    for n in walk_no_nested(factory_fn):
        if isinstance(n, ast.Assign) and isinstance(n.targets[0], ast.Name):
            assigns.setdefault(n.targets[0].id, []).append(n.value)

    def expand(e, depth=0):
        if depth > 4:
            return
        if isinstance(e, ast.IfExp):
            expand(e.body, depth + 1)
            expand(e.orelse, depth + 1)
        elif isinstance(e, ast.Call):
            name = (dotted(e.func) or "").split(".")[-1]
            q = f"{DESER_MOD}.{name}"
            if q in model.classes:
                out.setdefault(name, []).append(e)
                if name in WRAPPERS and e.args:
                    expand(e.args[0], depth + 1)
            elif isinstance(e.func, ast.Name) and e.func.id in siblings and id(siblings[e.func.id].node) not in _seen:
                for k_, v_ in node_classes_returned(model, siblings[e.func.id].node, visitor_mod, siblings, _seen).items():
                    out.setdefault(k_, []).extend(v_)
        elif isinstance(e, ast.Name):
            for v in assigns.get(e.id, []):
                expand(v, depth + 1)
    for n in walk_no_nested(factory_fn):
        if isinstance(n, ast.Return) and n.value is not None:
            expand(n.value)
    return out


def discriminator_key_if_absent(ctx, rule):
    model = ctx.model
    da = model.func(f"{SER_MOD}.DiscriminatedAlternative.serialize")
    st = [n for n in walk_no_nested(da.node) if isinstance(n, ast.Subscript) and isinstance(n.ctx, ast.Store) and norm(n.slice) == "self.alias"]
    # copy-on-write form: res = {**res, self.alias: self.key}
    st += [n for n in walk_no_nested(da.node) if isinstance(n, ast.Dict) and any(k is not None and norm(k) == "self.alias" for k in n.keys) and any(k is None for k in n.keys)]
    from ..boolx import BoolEval, Unknown
    from ..pathcond import complements, parents_of, path_condition
    pm = parents_of(da.node)
    ev = BoolEval(complements({"isinstance(res, dict)": "is_dict", "self.alias not in res": "!present"}))
    ok = bool(st)
    try:
        for n in st:
            got = ev.compile(path_condition(da.node, n, pm))
            for is_dict in (False, True):
                for present in (False, True):
                    if bool(got({"is_dict": is_dict, "present": present})) != (is_dict and not present):
                        ok = False
    except Unknown as err:
        ctx.undecided(rule, f"{da.qualname}: {err}")
    ctx.check(ok, rule, da.qualname, st[0] if st else da.node.body[0],
              "the discriminator key is not written exactly when the member's serialization is a dict lacking it: written over an existing value (a member declaring the discriminator as a multi-valued Literal field no longer round-trips), into a non-dict, or not at all",
              da, da.node, detail="res[self.alias] = self.key iff res is a dict and the key is absent")
    # every alternative of a discriminated union is wrapped: whether the key is present is a run-time fact
    # (exclude_defaults / exclude_unset / skip can drop a declared field), never a build-time one
    dm = model.func("apischema.serialization.SerializationMethodVisitor.discriminate")
    n_da = 0
    for c in ast.walk(dm.node):
        if not isinstance(c, ast.Call):
            continue
        nm = (dotted(c.func) or "").split(".")[-1]
        if nm == "DiscriminatedAlternative":
            n_da += 1
            args = [norm(a) for a in c.args] + [norm(k.value) for k in c.keywords]
            ctx.check(any("self.aliaser(discriminator.alias)" == a or a == "alias" for a in args) and "key" in args, rule, f"{dm.qualname}:DiscriminatedAlternative", c,
                      "the alternative is not built with the aliased discriminator name and its mapping key", dm, c, detail="(cls, method, aliaser(discriminator.alias), key)")
        elif nm == "UnionAlternative":
            ctx.fail(rule, f"{dm.qualname}:UnionAlternative", c, "a member of a discriminated union is serialized through a plain UnionAlternative: when its own serialization lacks the discriminator (field dropped by exclude_defaults / exclude_unset / skip) the key is not added and the datum no longer deserializes", dm.module.relpath, c.lineno)
    ctx.check(n_da >= 1, rule, f"{dm.qualname}:wrapped", dm.node.body[0], "discriminate() no longer builds DiscriminatedAlternative for the members", dm, dm.node, detail="DiscriminatedAlternative per member")



# accept what the wrapped node accepts: their deserialize hands the datum to self.method.deserialize first (checked below)
WRAPPERS = {"VariadicTupleMethod", "FrozenSetMethod", "ValidatorMethod"}


def factory_key_rule(ctx, rule):
    """who may declare a by-type dispatch key: only _factory(factory, K)"""
    model = ctx.model
    # who may declare a dispatch key: only _factory(factory, K), whose K sites are checked above
    n_ctor = 0
    for fi in model.functions.values():
        if not fi.module.name.startswith("apischema.deserialization"):
            continue
        for c in walk_no_nested(fi.node):
            if not isinstance(c, ast.Call):
                continue
            fn = (dotted(c.func) or "").split(".")[-1]
            if fn == "DeserializationMethodFactory":
                n_ctor += 1
                keyed = len(c.args) >= 2 or any(k.arg == "cls" for k in c.keywords)
                ctx.check(fi.qualname == f"{VISITOR}._factory" or not keyed, rule, f"{fi.qualname}:DeserializationMethodFactory", c,
                          "a DeserializationMethodFactory is built with a dispatch key outside _factory(): the key escapes the key / accept-set rule", fi, c, detail="only _factory builds keyed factories")
            if fn == "replace" and any(k.arg == "cls" for k in c.keywords):
                kw = next(k for k in c.keywords if k.arg == "cls")
                ctx.check(norm(kw.value) in ("self.cls", "None"), rule, f"{fi.qualname}:replace(cls=)", c,
                          f"`{short(c, 70)}` re-keys a factory for by-type dispatch (`cls={norm(kw.value)}`) outside _factory(): nothing relates that class to what the built node accepts (a conversion with several sources, an Enum / Literal source ... accept other JSON types)",
                          fi, c, detail="dispatch key only through _factory(factory, K)")
    ctx.require(n_ctor >= 1, "constructor call of DeserializationMethodFactory not found")


def check(ctx):
    model = ctx.model
    ctx.explanations.append(
        "C13: decided - for every `self._factory(factory, K)` the accept-set (computed from the node's guards) of each node "
        "class the factory can return is covered by the dispatch keys under which UnionByTypeMethod can find it, or the "
        "by-type shortcut is excluded for that mismatch by its selection guard (R1); the shortcut requires one key per "
        "alternative and no coercion, Optional requires NoneType and two alternatives (R2); UnionMethod returns the first "
        "success and merges all errors (R3); serialization tries alternatives in order by isinstance and expected_class "
        "has no silent default (R4); the object nodes reached through a discriminator reject unexpected keys like the "
        "alternative alone (R5, counter discipline). Not decided: discriminator mapping semantics, TaggedUnion, equality of values."
    )
    vis = model.cls(VISITOR)
    # ---------------- R1
    ctx.rule("C13.R1", "dispatch key declared by _factory(factory, K) covers the accept-set of the nodes built (or the shortcut excludes the mismatch)", floor=5)
    union_factory = model.func(f"{VISITOR}.union.<locals>.factory")
    sel = None
    for n in walk_no_nested(union_factory.node):
        if isinstance(n, ast.If):
            cur = n
            while True:
                if any(isinstance(s, ast.Return) and isinstance(s.value, ast.Call) and (dotted(s.value.func) or "").endswith("UnionByTypeMethod") for s in cur.body):
                    sel = cur
                if cur.orelse and len(cur.orelse) == 1 and isinstance(cur.orelse[0], ast.If):
                    cur = cur.orelse[0]
                else:
                    break
    ctx.require(sel is not None, "selection of UnionByTypeMethod not found in union()")
    conj = [norm(c) for c in flatten_boolop(sel.test, ast.And)]

    def excluded(key: str, missing: str) -> bool:
        """the shortcut is not selected whenever an alternative is keyed by `key` (its node also accepts data of class
        `missing`). Excluding it only when no alternative is keyed by `missing` is NOT enough: data of that class is then
        routed to the other alternative alone, which can reject what this one accepts (constraints, validators)."""
        forms = {f"{key} not in method_by_cls", f"not {key} in method_by_cls", f"not ({key} in method_by_cls)"}
        return any(c in forms for c in conj)

    n_keyed = 0
    for hook, m in vis.methods.items():
        for r in walk_no_nested(m.node):
            if not (isinstance(r, ast.Return) and isinstance(r.value, ast.Call) and norm(r.value.func) == "self._factory" and len(r.value.args) >= 2):
                continue
            keynode = r.value.args[1]
            fac = r.value.args[0]
            if not (isinstance(fac, ast.Name) and fac.id in m.nested):
                raise AnalysisError(f"{m.qualname}: factory argument of _factory is not a local closure")
            ffn = m.nested[fac.id].node
            n_keyed += 1
            key = dotted(keynode)
            if key in TAG_OF_KEY:
                # fixed key: every node the factory builds must accept only that class
                built = node_classes_returned(model, ffn, m.module, m.nested)
                ctx.require(built and set(built) - WRAPPERS, f"no node construction found in {m.qualname}.factory")
                for cname in sorted(built):
                    if cname in WRAPPERS:
                        continue
                    acc = accept_set(model, f"{DESER_MOD}.{cname}")
                    extra = {t for t in acc if t != TAG_OF_KEY[key]}
                    bad = [t for t in extra if not excluded(key, KEY_OF_TAG.get(t, t))]
                    ctx.check(not bad, "C13.R1", f"{hook}:{cname}", r,
                              f"{cname} accepts {sorted(acc)} but is registered for by-type dispatch under `{key}` only: data of class {sorted(bad)} is accepted by the alternative alone and rejected through Union (type(data) lookup misses it)",
                              m, r, detail=f"key {key} ; accept-set {sorted(acc)}")
            elif isinstance(keynode, ast.Name) and keynode.id in m.params:
                # key is the primitive class itself: map each `cls is X` branch to the node built there
                param = keynode.id
                branches = 0
                for t in walk_no_nested(ffn):
                    if isinstance(t, ast.If):
                        cur = t
                        while True:
                            tt = cur.test
                            if isinstance(tt, ast.Compare) and isinstance(tt.ops[0], ast.Is) and norm(tt.left) == param:
                                k = dotted(tt.comparators[0])
                                nodes = set()
                                for s in cur.body:
                                    for c in ast.walk(s):
                                        if isinstance(c, ast.Call):
                                            nm = (dotted(c.func) or "").split(".")[-1]
                                            if f"{DESER_MOD}.{nm}" in model.classes:
                                                nodes.add(nm)
                                for cname in sorted(nodes):
                                    branches += 1
                                    acc = accept_set(model, f"{DESER_MOD}.{cname}")
                                    ktag = TAG_OF_KEY.get(k)
                                    ctx.require(ktag is not None, f"unknown primitive key {k}")
                                    bad = [x for x in acc if x != ktag and not excluded(k, KEY_OF_TAG.get(x, x))]
                                    ctx.check(not bad, "C13.R1", f"{hook}[{k}]:{cname}", cur,
                                              f"{cname} accepts {sorted(acc)} but is registered for by-type dispatch under `{k}` only, and the UnionByTypeMethod selection does not exclude `{k}` without {sorted(KEY_OF_TAG.get(x, x) for x in bad)}: "
                                              f"e.g. deserialize(Union[{k}, str], <{(bad or ['?'])[0]}>) is rejected although deserialize({k}, <{(bad or ['?'])[0]}>) is accepted",
                                              m, cur, detail=f"key {k} ; accept-set {sorted(acc)} ; exclusions honoured")
                            if cur.orelse and len(cur.orelse) == 1 and isinstance(cur.orelse[0], ast.If):
                                cur = cur.orelse[0]
                            else:
                                break
                        break
                ctx.require(branches >= 5, f"primitive dispatch branches not recognised in {m.qualname}")
            else:
                # a computed key: whatever class it denotes, every node built must accept data of ONE class only
                built = node_classes_returned(model, ffn, m.module, m.nested)
                wide = {c_: accept_set(model, f"{DESER_MOD}.{c_}") for c_ in sorted(built) if c_ not in WRAPPERS}
                wide = {c_: a_ for c_, a_ in wide.items() if len(a_) > 1}
                if wide:
                    c_, a_ = next(iter(wide.items()))
                    ctx.fail("C13.R1", f"{hook}:{c_}", r,
                             f"`{short(r, 60)}` registers {c_} for by-type dispatch under the computed key `{norm(keynode)}`, but {c_} accepts data of several classes ({sorted(a_)[:4]}...: value lookup, `1.0 == 1`): data of another class than the key is accepted by the alternative alone and rejected through Union",
                             m.module.relpath, r.lineno)
                else:
                    ctx.undecided("C13.R1", f"{m.qualname}: dispatch key `{norm(keynode)}` is computed and cannot be related to the accept-set of {sorted(built)}")
    ctx.require(n_keyed >= 5, f"only {n_keyed} keyed _factory sites")
    for w in sorted(WRAPPERS):
        wm = model.func(f"{DESER_MOD}.{w}.deserialize")
        first = [c for c in ast.walk(wm.node) if isinstance(c, ast.Call) and norm(c.func) == "self.method.deserialize"]
        ok = len(first) == 1 and norm(first[0].args[0]) == "data" and not any(isinstance(n, ast.If) and any(x is first[0] for x in ast.walk(n)) and not any(x is first[0] for x in ast.walk(n.test)) for n in walk_no_nested(wm.node))
        ctx.check(ok, "C13.R1", f"wrapper:{w}", None, f"{w} no longer hands its datum unconditionally to the wrapped node: its accept-set is not the wrapped node's any more (dispatch keys are judged on the wrapped node)", wm, wm.node, detail="self.method.deserialize(data) first")
    factory_key_rule(ctx, "C13.R1")
    # the dispatcher itself looks up by exact type
    ub = model.func(f"{DESER_MOD}.UnionByTypeMethod.deserialize")
    tloc = {norm(a.targets[0] if isinstance(a, ast.Assign) else a.target) for a in walk_no_nested(ub.node) if isinstance(a, (ast.Assign, ast.AnnAssign)) and a.value is not None and norm(a.value) == "type(data)"} | {"type(data)"}
    exact = any((isinstance(n, ast.Subscript) and norm(n.value) == "self.method_by_cls" and norm(n.slice) in tloc) or
                (isinstance(n, ast.Call) and norm(n.func) == "self.method_by_cls.get" and n.args and norm(n.args[0]) in tloc) for n in walk_no_nested(ub.node))
    ctx.check(exact, "C13.R1", ub.qualname, ub.node.body[0], "UnionByTypeMethod no longer dispatches on type(data) first; the key/accept-set rule must be re-derived", ub, ub.node, detail="method_by_cls[type(data)] / .get(type(data))")
    # data of a *subclass* of a JSON class (OrderedDict, str subclasses) is accepted by the alternatives (isinstance tests):
    # the dispatcher must find them too, after the exact lookup, among the same table
    fb = [n for n in walk_no_nested(ub.node) if isinstance(n, ast.For) and "self.method_by_cls" in norm(n.iter) and any(isinstance(c, ast.Call) and dotted(c.func) == "isinstance" and norm(c.args[0]) == "data" for c in ast.walk(n))]
    ctx.check(bool(fb), "C13.R1", f"{ub.qualname}:subclasses", None,
              "the by-type dispatch only knows the exact class of the datum, while every alternative accepts subclasses (isinstance): deserialize(Union[Dict[str, int], str], OrderedDict(a=1)) is refused although deserialize(Dict[str, int], OrderedDict(a=1)) is accepted",
              ub, ub.node, detail="isinstance fallback over method_by_cls")

    # ---------------- R2
    ctx.rule("C13.R2", "shortcut applicability: one key per alternative, no coerced alternative; Optional only for NoneType + one alternative", floor=3)
    need = {"len(alt_factories) == len(method_by_cls)": "one dispatch key per alternative (alternatives without key, or two alternatives sharing a key, need the sequential union)"}
    for c, why in need.items():
        ctx.check(c in conj, "C13.R2", "UnionByTypeMethod:one-key-per-alternative", sel.test, f"selection of the by-type shortcut lacks `{c}`: {why}", union_factory, sel, detail=c)
    coer = any("CoercerMethod" in c and c.startswith("not any(") for c in conj)
    ctx.check(coer, "C13.R2", "UnionByTypeMethod:no-coercion", sel.test, "selection of the by-type shortcut no longer excludes coerced alternatives (coercion changes the datum's class before the alternative sees it)", union_factory, sel, detail="not any(isinstance(x, CoercerMethod) ...)")
    opt = None
    for n in walk_no_nested(union_factory.node):
        if isinstance(n, ast.If) and any(isinstance(s, ast.Return) and isinstance(s.value, ast.Call) and (dotted(s.value.func) or "").endswith("OptionalMethod") for s in n.body):
            opt = n
    ctx.require(opt is not None, "selection of OptionalMethod not found")
    oc = [norm(c) for c in flatten_boolop(opt.test, ast.And)]
    ctx.check("NoneType in types" in oc and "len(alt_methods) == 2" in oc, "C13.R2", "OptionalMethod:applicability", opt.test,
              f"OptionalMethod selected under `{norm(opt.test)}`; it handles exactly NoneType plus one alternative", union_factory, opt, detail="NoneType in types and len(alt_methods) == 2")
    # the value method given to OptionalMethod must be the non-None alternative
    gen = [n for n in ast.walk(opt) if isinstance(n, ast.GeneratorExp)]
    ok = any("fact.cls is not NoneType" in norm(g) for g in gen)
    ctx.check(ok, "C13.R2", "OptionalMethod:value-method", opt, "OptionalMethod is not given the non-None alternative", union_factory, opt, detail="next(meth ... if fact.cls is not NoneType)")

    # ---------------- R3
    ctx.rule("C13.R3", "UnionMethod: first success returns, all failures are merged and raised", floor=2)
    for q in (f"{DESER_MOD}.UnionMethod.deserialize", f"{DESER_MOD}.ConversionUnionMethod.deserialize"):
        um = model.func(q)
        loops = [n for n in walk_no_nested(um.node) if isinstance(n, ast.For)]
        ctx.require(len(loops) == 1, f"{q}: alternative loop not found")
        loop = loops[0]
        ret_in_loop = any(isinstance(n, ast.Return) for n in ast.walk(loop))
        merges = [n for n in ast.walk(loop) if isinstance(n, ast.Assign) and isinstance(n.value, ast.Call) and (dotted(n.value.func) or "").endswith("merge_errors")]
        after = um.node.body[um.node.body.index(loop) + 1:]
        raises = any(isinstance(s, ast.Raise) for s in after)
        no_break = not any(isinstance(n, ast.Break) for n in ast.walk(loop))
        ordered = dotted(loop.iter) in ("self.alt_methods", "self.alternatives") or (isinstance(loop.iter, ast.Call) and dotted(loop.iter.func) == "enumerate" and dotted(loop.iter.args[0]) in ("self.alt_methods", "self.alternatives"))
        ctx.check(ret_in_loop and merges and raises and no_break and ordered, "C13.R3", q, loop,
                  "sequential union is not first-success / merge-all-errors over the alternatives in declaration order", um, loop,
                  detail="return inside loop; error = merge_errors(error, err); raise after loop; no break; iterates the declared order")

    # ---------------- R4
    ctx.rule("C13.R4", "serialization union: isinstance dispatch in declaration order; expected_class raises for unsupported kinds", floor=2)
    su = model.func(f"{SER_MOD}.UnionMethod.serialize")
    loops = [n for n in walk_no_nested(su.node) if isinstance(n, ast.For)]
    ok = len(loops) == 1 and dotted(loops[0].iter) == "self.alternatives" and any(
        isinstance(n, ast.If) and isinstance(n.test, ast.Call) and dotted(n.test.func) == "isinstance" and norm(n.test.args[1]).endswith(".cls") for n in ast.walk(loops[0]))
    ctx.check(ok, "C13.R4", su.qualname, su.node.body[0], "serialization UnionMethod does not test alternatives in order with isinstance(obj, alternative.cls)", su, su.node, detail="for alternative in self.alternatives: if isinstance(obj, alternative.cls)")
    ec = model.func("apischema.serialization.expected_class")
    last = ec.node.body[-1]
    cur = last
    while isinstance(cur, ast.If) and cur.orelse:
        cur = cur.orelse[-1] if not (len(cur.orelse) == 1 and isinstance(cur.orelse[0], ast.If)) else cur.orelse[0]
    ends_raise = isinstance(cur, ast.Raise) or (isinstance(cur, ast.If) is False and isinstance(last, ast.Raise))
    ctx.check(ends_raise, "C13.R4", ec.qualname, last, "expected_class has a silent default: unsupported union members would be dispatched as `object`", ec, last, detail="final else raises TypeError")

    discriminator_key_if_absent(ctx, "C13.R4")

    # ---------------- R5
    check_counters(ctx, "C13.R5")
    # ---------------- R6: discriminated data reaches the member's object node
    ctx.rule("C13.R6", "discriminated union: the datum is handed to the member wrapped with the aliased discriminator key; object nodes unwrap it, remember the key and exempt it from the unexpected-property scan", floor=6)
    from .common_object import object_protocol_rule
    object_protocol_rule(ctx, "C13.R6", ["discriminated"])
    # wrappers that _factory puts around an object node must let the Discriminated wrapper through untouched
    fw = model.func(f"{VISITOR}._factory.<locals>.wrapper")
    wrappers = sorted({(dotted(c.func) or "").split(".")[-1] for c in ast.walk(fw.node) if isinstance(c, ast.Call) and f"{DESER_MOD}.{(dotted(c.func) or '').split('.')[-1]}" in model.classes})
    ctx.require(len(wrappers) >= 2, f"_factory.wrapper builds {wrappers}: expected ValidatorMethod and CoercerMethod")
    from ..pathcond import parents_of as _parents_of, path_condition as _path_condition
    for wname in wrappers:
        wm = model.find_method(f"{DESER_MOD}.{wname}", "deserialize")
        pmw = _parents_of(wm.node)
        for c in ast.walk(wm.node):
            if isinstance(c, ast.Call) and isinstance(c.func, ast.Attribute) and c.func.attr == "deserialize" and norm(c.func.value).startswith("self.") and c.args:
                arg = norm(c.args[0])
                cond = norm(_path_condition(wm.node, c, pmw))
                ok = arg == "data" or "not isinstance(data, Discriminated)" in cond
                ctx.check(ok, "C13.R6", f"{wname}:passes-Discriminated", c, f"{wname} (a wrapper _factory can put around an object node) gives its child `{arg}` computed from the datum without letting a Discriminated wrapper through: members of a discriminated union are then rejected ('expected type object, found Discriminated') under the option that adds this wrapper", wm, c, detail="child receives `data` itself, or Discriminated is passed through first")
    dmf = model.func(f"{DESER_MOD}.DiscriminatorMethod.deserialize")
    calls = [c for c in ast.walk(dmf.node) if isinstance(c, ast.Call) and isinstance(c.func, ast.Attribute) and c.func.attr == "deserialize"]
    ok = len(calls) == 1 and calls[0].args and norm(calls[0].args[0]) == "Discriminated(self.alias, data)"
    ctx.check(ok, "C13.R6", dmf.qualname + ":wrap", calls[0] if calls else dmf.node.body[0], "DiscriminatorMethod does not hand `Discriminated(self.alias, data)` to the selected member", dmf, dmf.node, detail="method.deserialize(Discriminated(self.alias, data))")
    look = [x for x in ast.walk(dmf.node) if isinstance(x, ast.Subscript) and norm(x.value) == "self.mapping"]
    ctx.check(len(look) == 1 and norm(look[0].slice) == "data[self.alias]", "C13.R6", dmf.qualname + ":lookup", look[0] if look else dmf.node.body[0], "the member is not selected by `self.mapping[data[self.alias]]`", dmf, dmf.node, detail="self.mapping[data[self.alias]]")


    # ---------------- R7: name / alias domains in the discriminator helpers
    ctx.rule("C13.R7", "a discriminator is an external property name: discriminator helpers look fields up by alias; containers keyed by Python names are never looked up with it", floor=1)
    from .common_domains import name_alias_domains_rule
    name_alias_domains_rule(ctx, "C13.R7", ("apischema.discriminators",))

    # ---------------- R12: tagged unions
    ctx.rule("C13.R12", "a TaggedUnion holds exactly one tag: the constructor refuses any other number of tags and unknown tags, sets every other tag to Undefined (omitted by serialization, which therefore emits the single tag), each tag is declared Union[T, UndefinedType] with default Undefined, the class is registered with minProperties = maxProperties = 1, and get_tagged returns the tag that is not Undefined", floor=6)
    tui = model.func("apischema.tagged_unions.TaggedUnion.__init__")
    tus = model.func("apischema.tagged_unions.TaggedUnion.__init_subclass__")
    gt = model.func("apischema.tagged_unions.get_tagged")
    kw = tui.node.args.kwarg.arg if tui.node.args.kwarg else "kwargs"
    arity = [n for n in walk_no_nested(tui.node) if isinstance(n, ast.If) and norm(n.test) == f"len({kw}) != 1" and any(isinstance(x, ast.Raise) for x in n.body)]
    ctx.check(len(arity) == 1, "C13.R12", f"{tui.qualname}:exactly-one", None, "the constructor no longer refuses zero or several tags (`if len(kwargs) != 1: raise`): a TaggedUnion with two tags can be built, serialized with two keys, and refused when read back", tui, tui.node, detail=f"if len({kw}) != 1: raise")
    unknown = [n for n in ast.walk(tui.node) if isinstance(n, ast.If) and norm(n.test) == "tag not in tags" and any(isinstance(x, ast.Raise) for x in n.body)]
    ctx.check(len(unknown) == 1, "C13.R12", f"{tui.qualname}:known-tag", None, "an unknown tag is no longer refused by the constructor", tui, tui.node, detail="if tag not in tags: raise")
    resets = [c for c in ast.walk(tui.node) if isinstance(c, ast.Call) and dotted(c.func) == "setattr" and len(c.args) == 3 and norm(c.args[0]) == "self"]
    vals = sorted(norm(c.args[2]) for c in resets)
    ctx.check(vals == ["Undefined", "value"], "C13.R12", f"{tui.qualname}:others-undefined", None, f"the constructor sets {vals}: every tag must first be Undefined (absent from the serialized data), then the given one receives its value", tui, tui.node, detail="setattr(self, tag, Undefined) for all; setattr(self, tag, value) for the given one")
    t_sub = norm(tus.node)
    fld_default = any(isinstance(c, ast.Call) and dotted(c.func) == "field" and any(k.arg == "default" and norm(k.value) == "Undefined" for k in c.keywords) for c in ast.walk(tus.node))
    ann_undef = any(isinstance(a, ast.Assign) and "__annotations__" in norm(a.targets[0]) and isinstance(a.value, ast.Subscript) and norm(a.value.value) == "Union" and "UndefinedType" in norm(a.value.slice) for a in ast.walk(tus.node))
    ctx.check(fld_default and ann_undef, "C13.R12", f"{tus.qualname}:tag-fields", None, "a tag is no longer declared as a field Union[T, UndefinedType] with default Undefined: absent tags would be required by deserialization / emitted by serialization", tus, tus.node, detail="field(default=Undefined, ...) : Union[T, UndefinedType]")
    reg = [c for c in ast.walk(tus.node) if isinstance(c, ast.Call) and dotted(c.func) == "schema"]
    kws12 = {k.arg: norm(k.value) for c in reg for k in c.keywords}
    ctx.check(kws12.get("min_props") == "1" and kws12.get("max_props") == "1", "C13.R12", f"{tus.qualname}:one-property", None, f"the class is registered with schema({kws12}) instead of min_props=1, max_props=1: data with no tag or several tags is no longer refused (nor excluded by the JSON schema)", tus, reg[0] if reg else tus.node, detail="schema(min_props=1, max_props=1)")
    ctx.check(any(k.arg == "init" and norm(k.value) == "False" for c in ast.walk(tus.node) if isinstance(c, ast.Call) and dotted(c.func) == "dataclass" for k in c.keywords), "C13.R12", f"{tus.qualname}:keeps-constructor", None, "the dataclass decorator replaces the checking constructor (init=False dropped)", tus, tus.node, detail="dataclass(init=False, ...)")
    ctx.check("is not Undefined" in norm(gt.node) and "next(iter(defined.items()))" in norm(gt.node), "C13.R12", f"{gt.qualname}:defined-tag", None, "get_tagged no longer returns the tag whose value is not Undefined", gt, gt.node, detail="the (tag, value) whose value is not Undefined")

    # ---------------- R11: the alternatives reach every visitor in declaration order
    ctx.rule("C13.R11", "the base dispatcher hands the alternatives of a union to union() exactly as get_args returns them, and the conversions visitor visits them in that order: 'the first accepting alternative' is the first declared one in every view", floor=3)
    vv = model.func("apischema.visitor.Visitor.visit")
    rebinds = [a for a in walk_no_nested(vv.node) if isinstance(a, (ast.Assign, ast.AugAssign, ast.AnnAssign)) and any(isinstance(x, ast.Name) and x.id in ("args", "origin") and isinstance(x.ctx, ast.Store) for x in ast.walk(a))]
    ctx.check(len(rebinds) == 1 and "get_args(tp)" in norm(rebinds[0]), "C13.R11", f"{vv.qualname}:args", None,
              f"`{short(rebinds[1], 70) if len(rebinds) > 1 else ''}` rebinds the arguments of the visited type before dispatching: the alternatives of a union are visited in another order than the declared one (e.g. None moved last - Union[None, str, int] then gives '' instead of None for '' under coercion)",
              vv, rebinds[1] if len(rebinds) > 1 else vv.node, detail="origin, args = get_origin_or_type(tp), get_args(tp) - never rebound")
    ucalls = [c for c in walk_no_nested(vv.node) if isinstance(c, ast.Call) and norm(c.func) == "self.union"]
    ctx.check(bool(ucalls) and all(norm(c.args[0]) in ("args", "args[0]") for c in ucalls), "C13.R11", f"{vv.qualname}:union(args)", None, "union() does not receive the arguments of the Union as they are", vv, ucalls[0] if ucalls else vv.node, detail="self.union(args)")
    ur = model.func("apischema.conversions.visitor.ConversionsVisitor._union_results")
    loops11 = [n for n in walk_no_nested(ur.node) if isinstance(n, ast.For)]
    ctx.check(len(loops11) == 1 and norm(loops11[0].iter) == ur.params[1], "C13.R11", f"{ur.qualname}:order", None, "the alternatives are not visited in the order they are given (sorted / reversed / filtered iteration)", ur, loops11[0] if loops11 else ur.node, detail=f"for alt in {ur.params[1]}")

    # ---------------- R10: str is not a collection
    ctx.rule("C13.R10", "serialization of a union: an alternative annotated with an abstract collection (Sequence, Collection, ...) does not capture str / bytes values, which are instances of those classes but no collections for the data model (deserialization refuses a string for Sequence[...]): the value goes on to the str alternative", floor=2)
    un = model.func("apischema.serialization.SerializationMethodVisitor.union")
    guards10 = [n for n in ast.walk(un.node) if isinstance(n, (ast.If, ast.IfExp)) and "issubclass(str, cls)" in norm(n.test) and "Collection" in norm(n.test)]
    picked = None
    for g in guards10:
        # the class chosen under the guard: assigned to a class-valued local (`alt_cls = X`), instantiated there (`X(cls, method)`)
        # or selected by a conditional expression (`(X if guard else Y)(cls, method)`)
        for b in (g.body if isinstance(g, ast.If) else [g.body]):
            for a in ast.walk(b):
                if isinstance(a, ast.Name) and isinstance(a.ctx, ast.Load) and f"{SER_MOD}.{a.id}" in model.classes and picked is None:
                    picked = a.id
    ctx.check(picked is not None, "C13.R10", f"{un.qualname}:abstract-collection", None,
              "every alternative is matched with a bare isinstance(obj, cls): for Union[Sequence[str], str] the value 'ab' is an instance of Sequence and is serialized as ['a', 'b'] (and differently with check_type=True when the item type is not str)",
              un, un.node, detail="alternatives whose class str / bytes are instances of get a guarding alternative")
    if picked is not None:
        gm = model.func(f"{SER_MOD}.{picked}.serialize")
        refuses = any(isinstance(n, ast.If) and "isinstance(obj, (str, bytes))" in norm(n.test) and any(isinstance(x, ast.Raise) for x in n.body) for n in walk_no_nested(gm.node))
        # ... then does what a plain alternative does: the inherited serialize, or its one-line body written out
        delegates = any(isinstance(r, ast.Return) and ("super().serialize(obj, path)" in norm(r) or "self.method.serialize(obj, path)" in norm(r)) for r in walk_no_nested(gm.node))
        if not refuses:
            # the same refusal written the other way round: `if not isinstance(obj, (str, bytes)): return <delegate>` then the raise
            refuses = any(isinstance(n, ast.If) and norm(n.test) == "not isinstance(obj, (str, bytes))" and not n.orelse and any(isinstance(x, ast.Return) for x in n.body) for n in walk_no_nested(gm.node)) \
                and isinstance(gm.node.body[-1], ast.Raise)
        ctx.check(refuses and delegates, "C13.R10", f"{gm.qualname}:refuses-str", None, f"{picked} does not raise for str / bytes before delegating: UnionMethod only tries the next alternatives when the matching one raises", gm, gm.node, detail="raise for str / bytes; else super().serialize(obj, path)")
        um10 = model.func(f"{SER_MOD}.UnionMethod.serialize")
        catches = any(isinstance(t_, ast.Try) and any(h.type is None or norm(h.type) in ("Exception", "TypeCheckError", "TypeError") for h in t_.handlers) for t_ in ast.walk(um10.node))
        ctx.check(catches, "C13.R10", f"{um10.qualname}:next-alternative", None, "UnionMethod no longer goes on with the next alternatives when one raises", um10, um10.node, detail="try: alternative.serialize ... except Exception: pass", nontrivial=False)

    # ---------------- R9: the discriminator key is consumed by the dispatch
    ctx.rule("C13.R9", "ObjectMethod: the discriminator key, consumed by the union dispatch, is withdrawn from the keys offered to the pattern / additional-properties fields - otherwise deserialize(Base, serialize(Base, v)) puts 'type' into v's additional-properties field and the value does not round-trip", floor=1)
    omd = model.func(f"{DESER_MOD}.ObjectMethod.deserialize")
    rem_defs = [n for n in walk_no_nested(omd.node) if isinstance(n, ast.Assign) and norm(n.targets[0]) == "remain"]
    ctx.require(len(rem_defs) == 1, "ObjectMethod.deserialize: `remain = ...` not found")
    rd = rem_defs[0]
    in_def = "discriminator" in norm(rd.value)
    discards = [c for c in walk_no_nested(omd.node) if isinstance(c, ast.Call) and norm(c.func) in ("remain.discard", "remain.difference_update") and c.args and "discriminator" in norm(c.args[0])]
    uses = [n for n in walk_no_nested(omd.node) if isinstance(n, (ast.DictComp, ast.For)) and ((isinstance(n, ast.DictComp) and norm(n.generators[0].iter) == "remain") or (isinstance(n, ast.For) and norm(n.iter) == "remain"))]
    first_use = min((u.lineno for u in uses), default=10 ** 9)
    ok = in_def or any(rd.lineno < c.lineno < first_use for c in discards)
    ctx.check(ok, "C13.R9", f"{omd.qualname}:remain", None,
              "the keys left for the aggregate fields (`remain`) still contain the discriminator key of the enclosing discriminated union: a member with an additional-properties (or matching pattern-properties) field stores {'type': 'Cat'} in it",
              omd, rd, detail="remain.discard(discriminator) before the pattern / additional fields")

    # ---------------- R8: inherited discriminator, several inheritance levels
    ctx.rule("C13.R8", "discriminator(cls): the union the serializer converts to lists the subclasses most derived first - serialization takes the first alternative the object is an instance of, and rec_subclasses yields a parent before its children", floor=2)
    dc = model.func("apischema.discriminators.Discriminator.__call__")
    rs_f = model.func("apischema.discriminators.rec_subclasses")
    preorder = any(isinstance(n, ast.Expr) and isinstance(n.value, ast.Yield) and norm(n.value.value) == "sub_cls" for n in ast.walk(rs_f.node)) and \
        [type(n.value).__name__ for n in ast.walk(rs_f.node) if isinstance(n, ast.Expr) and isinstance(n.value, (ast.Yield, ast.YieldFrom))] == ["Yield", "YieldFrom"]
    ser_calls = [c for c in ast.walk(dc.node) if isinstance(c, ast.Call) and dotted(c.func) == "serializer"]
    ctx.require(len(ser_calls) == 1, "discriminator(cls): serializer registration not found")
    tg = [k.value for c in ast.walk(ser_calls[0]) if isinstance(c, ast.Call) and dotted(c.func) == "Conversion" for k in c.keywords if k.arg == "target"]
    ctx.require(len(tg) == 1, "discriminator(cls): target of the serializer conversion not found")
    t_ = norm(tg[0])
    derived_first = ("reversed(" in t_ and "rec_subclasses(cls)" in t_) or ("sorted(" in t_ and "__mro__" in t_ and "reverse=True" in t_)
    ctx.check((not preorder) or derived_first, "C13.R8", f"{dc.qualname}:serializer-order", None,
              f"`target={short(tg[0], 60)}` keeps the order of rec_subclasses (parents first): with Base <- A <- AA, serialize(Base, AA()) matches alternative A first, drops AA's own fields and writes the discriminator value of A - the value does not round-trip",
              dc, tg[0], detail="Union[tuple(reversed(list(rec_subclasses(cls))))]")
    ctx.check(preorder or derived_first, "C13.R8", f"{rs_f.qualname}:order", None, "rec_subclasses no longer yields a class before its own subclasses and the serializer does not reorder: the order of the alternatives is unknown", rs_f, rs_f.node, detail="parent, then its subclasses", nontrivial=False)

def mutants(mb):
    TU = "apischema/tagged_unions.py"
    mb.add_text("tagged-union-any-arity", TU, "        if len(kwargs) != 1:\n            raise ValueError(\"TaggedUnion constructor expects only one field\")\n", "", "C13.R12", "exactly-one")
    mb.add_text("tagged-union-others-not-reset", TU, "        for tag in tags:\n            setattr(self, tag, Undefined)\n", "", "C13.R12", "others-undefined")
    mb.add_text("tagged-union-no-max", TU, "schema(min_props=1, max_props=1)", "schema(min_props=1)", "C13.R12", "one-property")
    mb.add_text("tagged-union-get-tagged-any", TU, "        if getattr(tagged_union, tag) is not Undefined\n", "", "C13.R12", "defined-tag")
    mb.add_text("none-alternative-moved-last", "apischema/visitor.py", "            if is_union(origin):\n                return self.union", "            if is_union(origin):\n                if type(None) in args:\n                    args = (*(arg for arg in args if arg is not type(None)), type(None))\n                return self.union", "C13.R11", "args")
    mb.add_text("str-captured-by-sequence-alternative", "apischema/serialization/__init__.py", "                    alt_cls = AbstractCollectionAlternative\n", "                    alt_cls = UnionAlternative\n", "C13.R10", "refuses-str")
    mb.add_text("abstract-collection-alternative-accepts-str", "apischema/serialization/methods.py", "        if isinstance(obj, (str, bytes)):\n            # caught by UnionMethod, which goes on with the next alternatives\n            raise TypeCheckError(f\"Expected {self.cls}, found {obj.__class__}\", [])\n", "", "C13.R10", "refuses-str")
    mb.add_text("by-type-exact-class-only", "apischema/deserialization/methods.py", "            for data_cls, method in self.method_by_cls.items():\n                if isinstance(data, data_cls):\n                    break\n            else:\n                raise bad_type(data, *self.method_by_cls)\n", "            raise bad_type(data, *self.method_by_cls)\n", "C13.R1", "subclasses")
    mb.add_text("discriminator-left-for-aggregates", "apischema/deserialization/methods.py", "            # the discriminator key has been consumed by the union dispatch\n            remain.discard(discriminator)\n", "", "C13.R9", "remain")
    mb.add_text("discriminated-serializer-parents-first", "apischema/discriminators.py", "                target=Union[tuple(reversed(list(rec_subclasses(cls))))],\n", "                target=Union[tuple(rec_subclasses(cls))],\n", "C13.R8", "serializer-order")
    mb.add_text("discriminate-plain-alternative", "apischema/serialization/__init__.py", "                    DiscriminatedAlternative(\n                        expected_class(tp),\n                        self.visit(tp),\n                        self.aliaser(discriminator.alias),\n                        key,\n                    )\n", "                    UnionAlternative(expected_class(tp), self.visit(tp))\n", "C13.R4", "discriminate")
    mb.add_text("conversion-factory-keyed", "apischema/deserialization/__init__.py", "        return self._factory(factory, validation=not dynamic)\n", "        return dataclasses.replace(self._factory(factory, validation=not dynamic), cls=conv_factories[0].cls)\n", "C13.R1", "replace(cls=)")
    D = "apischema/deserialization/__init__.py"
    M = "apischema/deserialization/methods.py"
    S = "apischema/serialization/methods.py"
    mb.add_text("float-int-exclusion-removed", D, "                and float not in method_by_cls\n", "", "C13.R1", "FloatMethod")
    mb.add_text("one-key-removed", D, "                len(method_by_cls) == len(alt_factories)\n                and not any(", "                not any(", "C13.R2", "one-key")
    mb.add_text("coercer-check-removed", D, "                and not any(isinstance(x, CoercerMethod) for x in alt_methods)\n", "", "C13.R2", "no-coercion")
    mb.add_text("optional-any-arity", D, "            if NoneType in types and len(alt_methods) == 2:", "            if NoneType in types:", "C13.R2", "OptionalMethod")
    mb.add_text("mapping-key-list", D, "        return self._factory(factory, dict)\n\n    def object(", "        return self._factory(factory, list)\n\n    def object(", "C13.R1", "mapping")
    mb.add_text("tuple-key-dict", D, "        return self._factory(factory, list)\n\n    def union(", "        return self._factory(factory, dict)\n\n    def union(", "C13.R1", "tuple")
    mb.add_text("int-method-widened", M, "        if not isinstance(data, int) or isinstance(data, bool):\n            raise bad_type(data, int)", "        if not isinstance(data, (int, float)) or isinstance(data, bool):\n            raise bad_type(data, int)", "C13.R1", "IntMethod")
    mb.add_text("union-last-success", M, "            try:\n                return alt_method.deserialize(data)\n            except ValidationError as err:\n                error = merge_errors(error, err)\n        assert error is not None\n        raise error",
                "            try:\n                result = alt_method.deserialize(data)\n                break\n            except ValidationError as err:\n                error = merge_errors(error, err)\n        assert error is not None\n        raise error", "C13.R3", "UnionMethod")
    mb.add_text("ser-union-no-isinstance", S, "            if isinstance(obj, alternative.cls):\n                try:\n                    return alternative.serialize(obj, path)\n                except Exception:\n                    pass", "            try:\n                return alternative.serialize(obj, path)\n            except Exception:\n                pass", "C13.R4", "UnionMethod")
    mb.add_text("expected-class-default-object", "apischema/serialization/__init__.py", "    else:\n        raise TypeError(f\"{tp} is not supported in union serialization\")", "    else:\n        return object", "C13.R4", "expected_class")
    mb.add_text("discriminator-key-overwrites", S, "        if isinstance(res, dict) and self.alias not in res:\n", "        if isinstance(res, dict):\n", "C13.R4", "DiscriminatedAlternative")
    counter_mutants(mb, "C13.R5")
    mb.add_text("coercer-swallows-discriminated", M, "        if isinstance(data, Discriminated):\n            # wrapper put by DiscriminatorMethod around an object, nothing to coerce\n            return self.method.deserialize(data)\n", "", "C13.R6", "CoercerMethod")
    mb.add_text("discriminator-key-guard-or", S, "        if isinstance(res, dict) and self.alias not in res:", "        if isinstance(res, dict) or self.alias not in res:", "C13.R4", "DiscriminatedAlternative")
    mb.add_text("discriminator-key-forgotten", M, "            if isinstance(data, Discriminated):\n                discriminator = data.discriminator\n                data = data.data\n                if not isinstance(data, dict):\n                    raise bad_type(data, dict)\n            else:\n                raise bad_type(data, dict)\n        values: dict = {}", "            if isinstance(data, Discriminated):\n                data = data.data\n                if not isinstance(data, dict):\n                    raise bad_type(data, dict)\n            else:\n                raise bad_type(data, dict)\n        values: dict = {}", "C13.R6", "ObjectMethod:discriminated")
    mb.add_text("discriminator-wrap-dropped", M, "            return method.deserialize(Discriminated(self.alias, data))", "            return method.deserialize(data)", "C13.R6", "wrap")
    mb.add_text("float-exclusion-only-without-int", D, "                and float not in method_by_cls\n", "                and not (float in method_by_cls and int not in method_by_cls)\n", "C13.R1", "FloatMethod")
    mb.add_text("neg-exclusion-rewritten", D, "                and float not in method_by_cls\n", "                and not (float in method_by_cls)\n", negative=True)
