"""C03 - deserialization is total, pure and crash-free on arbitrary input.

Decides: (a) no exception other than ValidationError can escape a node method,
coerce, bad_type, the constraint checks or ValidationError.errors because of
what the input is; (b) the input is never mutated through an alias; (c) errors is
computable. Not: recursion depth / termination, user callables.
"""
import ast
from typing import Dict, List, Set

from ..escape import KEYV, T, TAGS, TOP, Analyzer, Val, covers
from ..model import AnalysisError, FuncInfo
from ..nodes import DESER_MOD, deser_nodes, own_methods
from ..util import dotted, norm, short, walk_no_nested
from ..visitors import classify_impl

COERCION = "apischema.deserialization.coercion"
ERRORS = "apischema.validation.errors"
TYPES_MOD = "apischema.json_schema.types"
MUTATORS = {"append", "add", "update", "pop", "clear", "setdefault", "sort", "insert", "extend", "remove", "discard", "popitem", "__setitem__", "__delitem__", "reverse"}

# key of constraints_validators(...)[K]  ->  tags of the datum the constraint then sees
KEY_TAGS = {"list": {"list"}, "dict": {"dict"}, "str": {"str"}, "int": {"int"}, "float": {"int", "float"}}


def constraint_preconditions(model) -> Dict[str, Set[str]]:
    """Constraint class name -> tags of `data` it can be called with, derived from the
    Constraints dataclass (alias, cls) rows and the PascalCase naming used by
    constraints_validators."""
    cons = model.cls("apischema.constraints.Constraints")
    out = {}
    for name, v in cons.attrs.items():
        if isinstance(v, ast.Call) and dotted(v.func) == "constraint" and len(v.args) >= 2:
            alias = v.args[0].value if isinstance(v.args[0], ast.Constant) else None
            cls = dotted(v.args[1])
            if alias is None or cls not in KEY_TAGS:
                raise AnalysisError(f"unrecognised constraint row {name}")
            cname = alias[0].upper() + alias[1:] + "Constraint"
            tags = set(KEY_TAGS[cls])
            out[cname] = tags
    if len(out) < 10:
        raise AnalysisError(f"only {len(out)} constraint rows found")
    return out

from .common_nametable import nametable_rule


def check(ctx):
    model = ctx.model
    ctx.explanations.append(
        "C03: abstract interpretation of every node method (input = arbitrary object graph, refined by isinstance / is None / "
        "membership tests) against a hazard table (lookup, hashing, conversion, arithmetic, ordering, attribute, regex, raise, "
        "assert). Decided: every hazard's exception classes are caught by an enclosing handler of a covering class, or the "
        "operand is refined on all paths (R1); each Constraint.validate is only reachable with data of the class its table row "
        "declares (R1c) and is hazard-free under that precondition; no handler guards against a class its body cannot raise "
        "while the body can raise another (R2); no store / del / mutating call on an alias of the input (R3); "
        "ValidationError.errors is computable for arbitrary hashable keys (R4). Child .deserialize() calls are summarised by "
        "induction; user converters / coercers / validators / constructors are boundaries. Not decided: RecursionError on "
        "deep data, termination."
    )
    an = Analyzer(model)
    nodes = deser_nodes(model)
    methods = [m for m in own_methods(nodes) if classify_impl(m) != "abstract"]

    ctx.rule("C03.R1", "no exception class other than ValidationError escapes because of the input", floor=40)
    ctx.rule("C03.R2", "every except clause covers something its try body can raise (no handler for the wrong class)", floor=10)
    ctx.rule("C03.R3", "no store / del / mutating call on an alias of the input", floor=30)
    all_reports = []

    def run(fi: FuncInfo, args, attr_over=None, label=None):
        ret, escaping, reports = an.analyse(fi, args, attr_over)
        construct = label or fi.qualname
        by_node = {}
        for h in escaping:
            by_node.setdefault(id(h.node), []).append(h)
        if not escaping:
            ctx.ok("C03.R1", construct, f"no hazard escapes ({len(reports)} try statement(s) examined)", where=fi.loc)
        for hs in by_node.values():
            h = hs[0]
            excs = sorted({e for x in hs for e in x.excs})
            ctx.fail("C03.R1", construct, stmt_text(fi, h.node),
                     f"{', '.join(excs)} can escape: {h.msg}" + (f" (via {' -> '.join(h.via)})" if h.via else ""),
                     fi.module.relpath, getattr(h.node, "lineno", fi.node.lineno))
        for r in reports:
            if r["handler"] is None:
                continue
            hd = r["handler"]
            cons = f"{construct}:except {'/'.join(r['names'])}"
            if r["useful"]:
                ctx.ok("C03.R2", cons, "handler covers a modelled hazard or an opaque (child / user / repo) call of its body", where=f"{fi.module.relpath}:{hd.lineno}")
            else:
                unc = r["uncaught_in_body"]
                body_excs = sorted({e for h in r["body_hazards"] for e in h.excs})
                if unc:
                    ctx.fail("C03.R2", cons, hd.type if hd.type is not None else hd,
                             f"`except {'/'.join(r['names'])}` guards a body that cannot raise it, while the body can raise {', '.join(unc)} which is not caught: handler for the wrong class",
                             fi.module.relpath, hd.lineno)
                else:
                    ctx.ok("C03.R2", cons, f"handler never needed by the model (body hazards: {body_excs})", nontrivial=False, where=f"{fi.module.relpath}:{hd.lineno}")
        return ret

    # ---- node methods
    for m in methods:
        run(m, {"data": TOP})
    # ---- coerce and error helpers
    run(model.func(f"{COERCION}.coerce"), {"cls": T, "data": TOP})
    run(model.func(f"{TYPES_MOD}.bad_type"), {"data": TOP, "expected": T})
    # to_hashable / format_error are analysed in the context of their callers
    vc = model.func(f"{DESER_MOD}.validate_constraints")
    run(vc, {"data": TOP, "constraints": T, "children_errors": T})

    # ---- constraints under their table precondition
    ctx.rule("C03.R1c", "Constraint.validate is only reached with data of the class its table row declares", floor=8)
    pre = constraint_preconditions(model)
    base = model.cls(f"{DESER_MOD}.Constraint")
    for q in model.subclasses(base.qualname, strict=True):
        c = model.classes[q]
        m = c.methods.get("validate")
        if m is None:
            continue
        tags = pre.get(c.name)
        if tags is None:
            ctx.fail("C03.R1c", q, None, f"{c.name} has no row in Constraints: its precondition is unknown", c.module.relpath, c.node.lineno)
            continue
        run(m, {"data": Val("I", tags, False, False)}, label=f"{m.qualname}[data:{'|'.join(sorted(tags))}]")
    # index sites: constraints_validators(...)[K] feeds a node whose guard establishes K
    check_index_sites(ctx)

    # ---- R6: recursion on the datum (not on the type)
    ctx.rule("C03.R6", "no helper of the node methods recurses on the datum itself: node methods recurse along the type, whose depth is fixed; a helper walking the datum recursively raises RecursionError on deeply nested input even for a flat type such as List[Any]", floor=1)
    n6 = 0
    for fi in model.funcs_in_module(DESER_MOD):
        if fi.cls is not None or fi.parent is not None:
            continue
        rec = [c for c in ast.walk(fi.node) if (isinstance(c, ast.Call) and isinstance(c.func, ast.Name) and c.func.id == fi.name) or (isinstance(c, ast.Name) and c.id == fi.name and isinstance(c.ctx, ast.Load))]
        if not rec or not fi.params:
            continue
        n6 += 1
        p0 = fi.params[0]
        walks_datum = any(isinstance(n, ast.Call) and dotted(n.func) == "isinstance" and norm(n.args[0]) == p0 and any(t in norm(n.args[1]) for t in ("list", "dict")) for n in ast.walk(fi.node))
        ctx.check(not walks_datum, "C03.R6", fi.qualname, None, f"{fi.name} calls itself on the elements of its argument (a list / dict of the input): its depth is the depth of the datum, not of the type; with uniqueItems on List[Any], 2000 nested lists raise RecursionError out of deserialize", fi, rec[0], detail="iterative, or depth-bounded")
    ctx.check(n6 >= 1, "C03.R6", f"{DESER_MOD}:recursive-helpers", None, "no self-recursive helper found in the methods module (rule instance vanished)", None, None, nontrivial=False)

    # ---- R7: the library's own (standard types) deserializers
    ctx.rule("C03.R7", "converters registered by the library itself for standard types (apischema/std_types.py) turn every exception the wrapped stdlib callable raises on a wrong value into ValidationError: catch_value_error for the ValueError family, an explicit handler otherwise", floor=5)
    # what the stdlib callables raise on an arbitrary value of the source type (frozen: not derivable from this repository)
    STD_RAISES = {"b64decode": {"ValueError"}, "cls.fromisoformat": {"ValueError"}, "Decimal": {"ValueError"}, "deque": set(), "re.compile": {"re.error", "RecursionError", "OverflowError"},
                  "cls": {"ValueError"}}
    std = model.mod("apischema.std_types")
    regs = []
    for n in ast.walk(std.tree):
        if isinstance(n, ast.Call) and dotted(n.func) == "deserializer" and n.args and isinstance(n.args[0], ast.Call) and dotted(n.args[0].func) == "Conversion" and n.args[0].args:
            regs.append((n, n.args[0].args[0]))
    local_defs = {st.targets[0].id: st.value for st in ast.walk(std.tree) if isinstance(st, ast.Assign) and len(st.targets) == 1 and isinstance(st.targets[0], ast.Name)}
    for call, conv in regs:
        if isinstance(conv, ast.Name) and conv.id in local_defs:
            conv = local_defs[conv.id]
        wrapped = isinstance(conv, ast.Call) and dotted(conv.func) == "catch_value_error"
        inner = conv.args[0] if wrapped and conv.args else conv
        name = dotted(inner) or norm(inner)
        if name not in STD_RAISES:
            ctx.undecided("C03.R7", f"std_types: converter `{name}` is not in the table of stdlib callables (what does it raise on a wrong value?)")
            continue
        left = set(STD_RAISES[name]) - ({"ValueError"} if wrapped else set())
        ctx.check(not left, "C03.R7", f"apischema.std_types:deserializer({name})", None,
                  f"`{short(call, 70)}`: `{name}` raises {sorted(left)} on a wrong value and nothing converts it: deserialize lets it escape instead of raising ValidationError",
                  None, None, detail=("catch_value_error(" + name + ")") if wrapped else f"{name} raises nothing on its source type")
    for fi in model.funcs_in_module("apischema.std_types"):
        if not any((dotted(d) or "") == "deserializer" for d in fi.node.decorator_list):
            continue
        for c in walk_no_nested(fi.node):
            if isinstance(c, ast.Call) and (dotted(c.func) or "") in STD_RAISES and STD_RAISES[dotted(c.func)]:
                want = STD_RAISES[dotted(c.func)]
                tries = [t for t in walk_no_nested(fi.node) if isinstance(t, ast.Try) and any(x is c for b in t.body for x in ast.walk(b))]
                caught = set()
                for t in tries:
                    for h in t.handlers:
                        hs = [h.type] if not isinstance(h.type, ast.Tuple) else h.type.elts
                        if any(isinstance(r, ast.Raise) and "ValidationError" in norm(r) for r in ast.walk(h)):
                            caught |= {dotted(x) or "" for x in hs if x is not None}
                        if h.type is None:
                            caught |= want
                if "Exception" in caught:
                    caught |= want
                left = want - caught
                ctx.check(not left, "C03.R7", f"{fi.qualname}:{dotted(c.func)}", None,
                          f"`{short(c, 50)}` raises {sorted(left)} on some strings ({'thousands of nested groups' if 'RecursionError' in left else 'an invalid value'}) and no handler turns it into ValidationError",
                          fi, c, detail=f"except {sorted(want)} -> ValidationError")
    as_str_f = model.func("apischema.conversions.converters.as_str")
    ctx.check("catch_value_error(cls)" in norm(as_str_f.node), "C03.R7", as_str_f.qualname, None, "as_str registers the class constructor without catch_value_error: UUID('x') / IPv4Address('x') raise ValueError out of deserialize", as_str_f, as_str_f.node, detail="catch_value_error(cls)")

    # ---- R8: shape of the registered dependent_required entries
    ctx.rule("C03.R8", "dependent_required registers (field, collection of fields) pairs: what get_dependent_required maps get_field_name over is a flat collection of field designators in both notations (mapping and group)", floor=2)
    dr = model.func("apischema.dependencies.dependent_required")
    appends = [c for c in ast.walk(dr.node) if isinstance(c, ast.Call) and isinstance(c.func, ast.Attribute) and c.func.attr == "append" and c.args and isinstance(c.args[0], ast.Tuple) and len(c.args[0].elts) == 2]
    ctx.require(len(appends) >= 2, "dependent_required: the (field, required) registrations were not found")
    loop_of = {}
    for lp in ast.walk(dr.node):
        if isinstance(lp, ast.For):
            for x in ast.walk(lp):
                loop_of.setdefault(id(x), []).append(lp)

    def depth(e, env):
        """nesting depth of the collection denoted by e: 0 = a field designator, 1 = collection of designators, ..."""
        if isinstance(e, ast.Name):
            return env.get(e.id)
        if isinstance(e, ast.Subscript):
            d = depth(e.value, env)
            if d is None:
                return None
            return d if isinstance(e.slice, ast.Slice) else d - 1
        if isinstance(e, ast.BinOp) and isinstance(e.op, ast.Add):
            a, b = depth(e.left, env), depth(e.right, env)
            return a if a == b else None
        if isinstance(e, (ast.List, ast.Tuple, ast.Set)):
            ds = set()
            for x in e.elts:
                ds.add(depth(x.value, env) if isinstance(x, ast.Starred) else (None if depth(x, env) is None else depth(x, env) + 1))
            return ds.pop() if len(ds) == 1 else None
        if isinstance(e, (ast.ListComp, ast.SetComp, ast.GeneratorExp)) and len(e.generators) == 1 and isinstance(e.generators[0].target, ast.Name):
            src = depth(e.generators[0].iter, env)
            if src is None:
                return None
            d = depth(e.elt, {**env, e.generators[0].target.id: src - 1})
            return None if d is None else d + 1
        if isinstance(e, ast.Call) and dotted(e.func) in ("list", "tuple", "set", "frozenset") and len(e.args) == 1:
            return depth(e.args[0], env)
        return None
    for c in appends:
        env = {}
        for lp in loop_of.get(id(c), []):
            it, tg = lp.iter, lp.target
            if norm(it) == "fields.items()" and isinstance(tg, ast.Tuple):
                env[norm(tg.elts[1])] = 1       # Mapping[field, Collection[field]]
                env[norm(tg.elts[0])] = 0
            elif norm(it) in ("map(list, groups)", "groups") and isinstance(tg, ast.Name):
                env[tg.id] = 1                  # each group is a collection of fields
            elif isinstance(it, ast.Call) and dotted(it.func) == "enumerate" and isinstance(tg, ast.Tuple) and len(tg.elts) == 2:
                d = depth(it.args[0], env)
                if d is not None:
                    env[norm(tg.elts[1])] = d - 1
        req = c.args[0].elts[1]
        d = depth(req, env)
        if d is None:
            ctx.undecided("C03.R8", f"dependent_required: shape of `{norm(req)}` not inferred")
            continue
        ctx.check(d == 1, "C03.R8", f"{dr.qualname}:required={norm(req)[:40]}", None,
                  f"`{short(c, 70)}` registers a collection nested {d} deep where the readers expect the required fields themselves: get_field_name is applied to a list, and every later deserialize / schema call for the class raises TypeError",
                  dr, c, detail="flat collection of field designators")
    gdr = model.func("apischema.dependencies.get_dependent_required")
    ctx.check("map(get_field_name, required)" in norm(gdr.node) or "get_field_name(req" in norm(gdr.node), "C03.R8", f"{gdr.qualname}:reader", None, "get_dependent_required no longer maps get_field_name over the registered collection (reader of the shape changed)", gdr, gdr.node, detail="map(get_field_name, required)")

    # ---- R9: constructors of the library's own object classes
    ctx.rule("C03.R9", "the object node builds instances with cls(**values): for a class the library itself defines (TaggedUnion), a constructor raising ValueError / TypeError on a condition over the given values lets that exception out of deserialize whenever the structural checks do not exclude the condition", floor=1)
    tu = model.func("apischema.tagged_unions.TaggedUnion.__init__")
    from ..pathcond import parents_of as _po9, path_condition as _pc9
    pm9 = _po9(tu.node)
    kw9 = tu.node.args.kwarg.arg if tu.node.args.kwarg else None
    ctx.require(kw9 is not None, "TaggedUnion.__init__ no longer takes **kwargs")
    for r in walk_no_nested(tu.node):
        if isinstance(r, ast.Raise) and r.exc is not None and "ValidationError" not in norm(r.exc):
            cond = _pc9(tu.node, r, pm9)
            if cond is not None and any(isinstance(x, ast.Name) and x.id == kw9 for x in ast.walk(cond)) and "len(" in norm(cond):
                ctx.fail("C03.R9", f"{tu.qualname}:arity", None,
                         f"`{short(r, 60)}` under `{norm(cond)}`: the only structural guard is the schema `minProperties: 1, maxProperties: 1`, which counts every property of the datum, not the tags that were deserialized - an additional property ({{'zzz': 1}} with additional_properties=True), a tag dropped by fall_back_on_default, or a class-level schema(...) replacing the registered one give zero or two values and the {norm(r.exc).split('(')[0]} escapes",
                         tu.module.relpath, r.lineno)
    ctx.ok("C03.R9", f"{tu.qualname}:analysed", "raises of the constructor examined", True, tu.loc)

    # ---- R5: build-time name tables
    ctx.rule("C03.R5", "names from dependent_required are looked up in the operation's field table only under a membership guard (no KeyError for fields skipped for the operation)", floor=3)
    nametable_rule(ctx, "C03.R5")

    # ---- R4: errors computable
    ctx.rule("C03.R4", "ValidationError.errors is computable whatever the (hashable) keys", floor=3)
    ve = model.cls(f"{ERRORS}.ValidationError")
    children = Val("I", {"dict"}, False, False, True)
    for name in ("_errors", "errors"):
        m = ve.methods.get(name)
        ctx.require(m is not None, f"ValidationError.{name} vanished")
        ret, escaping, reports = an.analyse(m, {}, {"self.children": children})
        ctx.check(not escaping, "C03.R4", m.qualname, stmt_text(m, escaping[0].node) if escaping else None,
                  (f"{', '.join(sorted(escaping[0].excs))} can escape: {escaping[0].msg}" if escaping else ""), m, escaping[0].node if escaping else m.node,
                  detail="children keys modelled as arbitrary hashables of mixed types")
    # loc elements are str / int (JSON-serializable whatever the keys of the input were)
    er = ve.methods["_errors"]
    ys = [n for n in walk_no_nested(er.node) if isinstance(n, ast.Yield) and isinstance(n.value, ast.Tuple) and isinstance(n.value.elts[0], ast.List) and n.value.elts[0].elts]
    ctx.require(ys, "ValidationError._errors: yield of [key, *path] not found")
    for y in ys:
        first = y.value.elts[0].elts[0]
        e = first
        if isinstance(first, ast.Name):
            vals = [a.value for a in ast.walk(er.node) if isinstance(a, ast.Assign) and isinstance(a.targets[0], ast.Name) and a.targets[0].id == first.id]
            e = vals[0] if len(vals) == 1 else first
        ok = False
        if isinstance(e, ast.IfExp) and isinstance(e.test, ast.Call) and dotted(e.test.func) == "isinstance" and norm(e.test.args[1]) in ("(str, int)", "(int, str)"):
            ok = isinstance(e.orelse, ast.Call) and dotted(e.orelse.func) in ("str", "repr") and norm(e.body) == norm(e.test.args[0])
        elif isinstance(e, ast.Call) and dotted(e.func) in ("str", "repr"):
            ok = True
        ctx.check(ok, "C03.R4", er.qualname + ":loc", y, f"`loc` receives `{norm(first)}` as it is: a key of the input that is neither str nor int (bytes, tuple, ...) makes ValidationError.errors not JSON-serializable",
                  er, y, detail="key if isinstance(key, (str, int)) else str(key)")
    for fname in ("merge_errors", "apply_aliaser"):
        m = model.func(f"{ERRORS}.{fname}")
        attr = {"err1.children": children, "err2.children": children, "error.children": children}
        ret, escaping, _ = an.analyse(m, {}, attr)
        ctx.check(not escaping, "C03.R4", m.qualname, stmt_text(m, escaping[0].node) if escaping else None,
                  (f"{', '.join(sorted(escaping[0].excs))} can escape: {escaping[0].msg}" if escaping else ""), m, escaping[0].node if escaping else m.node)

    # ---- R3: no input mutation
    mutation_rule(ctx, "C03.R3", [m for m in methods] + [model.func(f"{COERCION}.coerce"), vc] + [c.methods["construct"] for c in model.classes_in_module(DESER_MOD) if "construct" in c.methods and classify_impl(c.methods["construct"]) != "abstract"], {"data", "fields"})

    ctx.extra["escape_analysis"] = dict(an.stats)


def stmt_text(fi: FuncInfo, node):
    best = None
    for st in ast.walk(fi.node):
        if isinstance(st, ast.stmt) and st is not fi.node and not isinstance(st, (ast.FunctionDef, ast.ClassDef, ast.If, ast.For, ast.While, ast.Try, ast.With)):
            if any(x is node for x in ast.walk(st)):
                best = st
    if best is None:
        return node
    return best


def check_index_sites(ctx):
    """constraints_validators(constraints)[K] must feed the node class whose guard
    establishes an instance of K."""
    model = ctx.model
    expected = {
        "ListMethod": "list", "ListCheckOnlyMethod": "list", "SetMethod": "list", "TupleMethod": "list",
        "MappingMethod": "dict", "MappingCheckOnly": "dict", "ObjectMethod": "dict",
    }
    sites = 0
    for fi in model.funcs_in_module("apischema.deserialization"):
        local = {}
        for n in walk_no_nested(fi.node):
            if isinstance(n, ast.Assign) and isinstance(n.targets[0], ast.Name) and isinstance(n.value, ast.Subscript) and isinstance(n.value.value, ast.Call) and dotted(n.value.value.func) == "constraints_validators":
                local[n.targets[0].id] = norm(n.value.slice)
        for c in walk_no_nested(fi.node):
            if not isinstance(c, ast.Call):
                continue
            cname = (dotted(c.func) or "").split(".")[-1]
            if cname not in expected:
                continue
            for a in c.args:
                key = None
                if isinstance(a, ast.Name) and a.id in local:
                    key = local[a.id]
                elif isinstance(a, ast.Subscript) and isinstance(a.value, ast.Call) and dotted(a.value.func) == "constraints_validators":
                    key = norm(a.slice)
                if key is None:
                    continue
                sites += 1
                ctx.check(key == expected[cname], "C03.R1c", f"{fi.qualname}:{cname}", c,
                          f"{cname} checks that data is a {expected[cname]} but is given the constraints registered for `{key}`: their validate() would run on the wrong class (TypeError / wrong verdict)",
                          fi, c, detail=f"constraints[{key}] -> {cname}")
    # primitive(): validators = constraints_validators(constraints)[cls] used under `cls is <K>`
    prim = model.func("apischema.deserialization.DeserializationMethodVisitor.primitive.<locals>.factory")
    idx = [n for n in walk_no_nested(prim.node) if isinstance(n, ast.Subscript) and isinstance(n.value, ast.Call) and dotted(n.value.func) == "constraints_validators"]
    ctx.check(len(idx) == 1 and norm(idx[0].slice) == "cls", "C03.R1c", prim.qualname, idx[0] if idx else prim.node.body[0],
              "primitive constraints must be looked up with the primitive class itself", prim, prim.node, detail="constraints[cls]")
    anym = model.func(f"{DESER_MOD}.AnyMethod.deserialize")
    ok = any(isinstance(n, ast.Subscript) and norm(n.slice) == "type(data)" for n in walk_no_nested(anym.node))
    ctx.check(ok, "C03.R1c", anym.qualname, anym.node.body[0], "AnyMethod must select constraints by the exact type of the datum", anym, anym.node, detail="constraints[type(data)]")
    ctx.require(sites >= 6, f"only {sites} constraint index sites found")


def _returns_fresh(fn) -> bool:
    """every return of fn yields a container built in fn (display / comprehension, directly or through one local)"""
    fresh_locals = set()
    for n in walk_no_nested(fn):
        if isinstance(n, (ast.Assign, ast.AnnAssign)) and n.value is not None and isinstance(n.value, (ast.Dict, ast.List, ast.Set, ast.DictComp, ast.ListComp, ast.SetComp)):
            for t in (n.targets if isinstance(n, ast.Assign) else [n.target]):
                if isinstance(t, ast.Name):
                    fresh_locals.add(t.id)
    rets = [n for n in walk_no_nested(fn) if isinstance(n, ast.Return)]
    return bool(rets) and all(r.value is not None and (isinstance(r.value, (ast.Dict, ast.List, ast.Set, ast.DictComp, ast.ListComp, ast.SetComp)) or (isinstance(r.value, ast.Name) and r.value.id in fresh_locals)) for r in rets)


def mutation_rule(ctx, rule, funcs, input_params, child_results_alias=False):
    """Ownership: names that alias (part of) the input must not be written through.
    child_results_alias: the value returned by a child `.serialize(<input>)` may be (part of) the input itself
    (identity methods under no_copy / pass-through)."""
    for fi in funcs:
        fn = fi.node
        params = [p for p in fi.params if p in input_params]
        if not params:
            continue
        # alias analysis (flow-insensitive, conservative): a name aliases the input if
        # some assignment binds it to the input / a part of it without a copy
        alias: Set[str] = set(params)
        fresh_assigned: Dict[str, List[int]] = {}
        changed = True

        def is_alias_expr(e) -> bool:
            if isinstance(e, ast.Name):
                return e.id in alias
            if isinstance(e, ast.Subscript):
                return is_alias_expr(e.value) and not isinstance(e.slice, ast.Slice)
            if isinstance(e, ast.Attribute):
                return is_alias_expr(e.value)
            if child_results_alias and isinstance(e, ast.Call) and isinstance(e.func, ast.Attribute) and e.func.attr == "serialize" and e.args and is_alias_expr(e.args[0]):
                if isinstance(e.func.value, ast.Call) and norm(e.func.value.func) == "super" and fi.cls is not None:
                    # statically resolved: the parent's method may build a fresh container
                    parent = ctx.model.find_method(fi.cls.qualname, "serialize", after=fi.cls.qualname)
                    if parent is not None and _returns_fresh(parent.node):
                        return False
                return True
            if isinstance(e, ast.Call) and isinstance(e.func, ast.Attribute) and e.func.attr in ("get", "setdefault", "pop", "__getitem__", "values", "items"):
                return is_alias_expr(e.func.value)
            if isinstance(e, ast.IfExp):
                return is_alias_expr(e.body) or is_alias_expr(e.orelse)
            return False
        # flow-sensitivity for the one idiom the repo uses: `data = data.copy()` makes
        # `data` fresh from that statement on (line order within a straight block)
        copies = {}
        for n in walk_no_nested(fn):
            if isinstance(n, ast.Assign) and len(n.targets) == 1 and isinstance(n.targets[0], ast.Name):
                v = n.value
                nm = n.targets[0].id
                if isinstance(v, ast.Call) and ((isinstance(v.func, ast.Attribute) and v.func.attr in ("copy", "deepcopy")) or dotted(v.func) in ("dict", "list", "copy", "deepcopy")):
                    copies.setdefault(nm, []).append(n)
        while changed:
            changed = False
            for n in walk_no_nested(fn):
                tgt, val = None, None
                if isinstance(n, ast.Assign) and len(n.targets) == 1 and isinstance(n.targets[0], ast.Name):
                    tgt, val = n.targets[0].id, n.value
                elif isinstance(n, ast.AnnAssign) and isinstance(n.target, ast.Name) and n.value is not None:
                    tgt, val = n.target.id, n.value
                elif isinstance(n, (ast.For,)) and isinstance(n.target, ast.Name):
                    tgt, val = n.target.id, n.iter
                elif isinstance(n, ast.For) and isinstance(n.target, ast.Tuple):
                    for t in n.target.elts:
                        if isinstance(t, ast.Name) and is_alias_expr(n.iter.func.value if isinstance(n.iter, ast.Call) and isinstance(n.iter.func, ast.Attribute) else n.iter) and t.id not in alias:
                            alias.add(t.id)
                            changed = True
                    continue
                if tgt is not None and tgt not in alias and is_alias_expr(val):
                    alias.add(tgt)
                    changed = True
        cfg = None
        n_sites = 0
        for n in walk_no_nested(fn):
            target, what = None, None
            if isinstance(n, ast.Subscript) and isinstance(n.ctx, (ast.Store, ast.Del)):
                target, what = n.value, "item store / del"
            elif isinstance(n, ast.Attribute) and isinstance(n.ctx, (ast.Store, ast.Del)):
                target, what = n.value, "attribute store"
            elif isinstance(n, ast.Call) and isinstance(n.func, ast.Attribute) and n.func.attr in MUTATORS:
                target, what = n.func.value, f".{n.func.attr}()"
            if target is None:
                continue
            n_sites += 1
            if not is_alias_expr(target):
                ctx.ok(rule, f"{fi.qualname}:{short(n, 40)}", "writes to a fresh / trusted object", nontrivial=False, where=fi.loc)
                continue
            # dominated by a copy of that very name?
            root = target
            while not isinstance(root, ast.Name):
                root = root.value if hasattr(root, "value") else root.func.value
            ok = False
            if isinstance(target, ast.Name) and root.id in copies:
                from ..cfg import CFG
                cfg = cfg or CFG(fn, exc_edges=False)
                dom = cfg.dominators()
                st = stmt_text(fi, n)
                sn = cfg.stmt_node.get(st)
                for cp in copies[root.id]:
                    cn = cfg.stmt_node.get(cp)
                    if sn is not None and cn is not None and cn in dom.get(sn, set()):
                        # and no re-binding to the input in between: the copy statement
                        # is the last assignment to the name on every path (single other
                        # assignments are the unwrapping before it)
                        ok = True
            ctx.check(ok, rule, f"{fi.qualname}:{short(n, 40)}", stmt_text(fi, n),
                      f"{what} on `{norm(target)}`, which aliases the caller's input (no copy dominates it): deserialize would modify its argument",
                      fi, n, detail="dominated by a copy of the same name")
        if n_sites == 0:
            ctx.ok(rule, fi.qualname, "no store / del / mutating call at all", nontrivial=False, where=fi.loc)


def fixtures(ctx):
    """the hazard table must be able to fire: a 6-line node with a KeyError leak."""
    import textwrap
    src = textwrap.dedent('''
    class LeakyMethod:
        def deserialize(self, data):
            try:
                return self.value_map[data]
            except IndexError:
                raise ValidationError("x")
    ''')
    tree = ast.parse(src)
    fn = tree.body[0].body[0]

    class Mod:
        name = "fixture"
        relpath = "fixture.py"
        imports = {}
        defs = {}

    class FI:
        qualname = "fixture.LeakyMethod.deserialize"
        name = "deserialize"
        node = fn
        module = Mod
        params = ["self", "data"]
        cls = None
        parent = None
        nested = {}
    an = Analyzer(ctx.model)
    ret, escaping, reports = an.analyse(FI, {"data": TOP})
    excs = {e for h in escaping for e in h.excs}
    wrong = [r for r in reports if r["handler"] is not None and not r["useful"] and r["uncaught_in_body"]]
    if not ({"KeyError", "TypeError"} <= excs and wrong):
        raise AnalysisError(f"C03 positive fixture failed: escaping={excs} wrong-handlers={len(wrong)}")


def mutants(mb):
    mb.add_text("dep-req-group-nested", "apischema/dependencies.py", "                dep_req.append((field, group[:i] + group[i + 1 :]))\n", "                dep_req.append((field, [group[:i], group[i + 1 :]]))\n", "C03.R8", "required=")
    mb.add_text("neg-dep-req-group-comprehension", "apischema/dependencies.py", "                dep_req.append((field, group[:i] + group[i + 1 :]))\n", "                dep_req.append((field, [other for other in group if other is not field]))\n", negative=True)
    mb.add_text("bytes-unwrapped", "apischema/std_types.py", "Conversion(catch_value_error(b64decode), source=str, target=bytes)", "Conversion(b64decode, source=str, target=bytes)", "C03.R7", "b64decode")
    mb.add_text("pattern-only-re-error", "apischema/std_types.py", "    except (re.error, RecursionError, OverflowError) as err:\n", "    except re.error as err:\n", "C03.R7", "_compile")
    mb.add_text("isoformat-unwrapped", "apischema/std_types.py", "    fromisoformat = catch_value_error(cls.fromisoformat)  # type: ignore\n", "    fromisoformat = cls.fromisoformat  # type: ignore\n", "C03.R7", "fromisoformat")
    mb.add_text("as-str-unwrapped", "apischema/conversions/converters.py", "    deserializer(Conversion(catch_value_error(cls), source=str, target=cls))\n", "    deserializer(Conversion(cls, source=str, target=cls))\n", "C03.R7", "as_str")
    mb.add_text("neg-pattern-catch-all", "apischema/std_types.py", "    except (re.error, RecursionError, OverflowError) as err:\n", "    except Exception as err:\n", negative=True)
    M = "apischema/deserialization/methods.py"
    C = "apischema/deserialization/coercion.py"
    Tm = "apischema/json_schema/types.py"
    E = "apischema/validation/errors.py"
    D = "apischema/deserialization/__init__.py"
    mb.add_text("dependent-required-unguarded", D, "                if f not in alias_by_name:  # field skipped for deserialization\n                    continue\n", "", "C03.R5", "DeserializationMethodVisitor.object")
    mb.add_text("schema-dependent-keys-unfiltered", "apischema/json_schema/schema.py", "            if f in aliases\n            and any(req in aliases and req not in omittable for req in reqs)\n", "", "C03.R5", "SchemaBuilder.object")
    mb.add_text("schema-dependent-values-unfiltered", "apischema/json_schema/schema.py", "            f: [req for req in reqs if req in aliases and req not in omittable]\n", "            f: [req for req in reqs if req not in omittable]\n", "C03.R5", "SchemaBuilder.object")
    mb.add_text("coerce-str-huge-int", C, "            try:\n                return str(data)  # type: ignore\n            except ValueError:  # int too large for decimal conversion\n                raise bad_type(data, cls)", "            return str(data)  # type: ignore", "C03.R1", "coerce")
    mb.add_text("coerce-none-unhashable-str", C, "        try:\n            if data is None or (isinstance(data, str) and data in STR_NONE_VALUES):\n                return None  # type: ignore\n        except TypeError:  # str subclass which is not hashable\n            pass\n        raise bad_type(data, cls)", "        if data is None or (isinstance(data, str) and data in STR_NONE_VALUES):\n            return None  # type: ignore\n        raise bad_type(data, cls)", "C03.R1", "coerce")
    mb.add_text("neg-dependent-guard-if-form", D, "                if f not in alias_by_name:  # field skipped for deserialization\n                    continue\n                for req in reqs:\n                    requiring[req].add(alias_by_name[f])", "                if f in alias_by_name:\n                    for req in reqs:\n                        requiring[req].add(alias_by_name[f])", negative=True)
    mb.add_text("union-assert-flipped", M, "                error = merge_errors(error, err)\n        assert error is not None\n        raise error\n\n\n@dataclass\nclass ConversionMethod", "                error = merge_errors(error, err)\n        assert error is None\n        raise error\n\n\n@dataclass\nclass ConversionMethod", "C03.R1", "UnionMethod")
    mb.add_text("discriminator-unknown-attr", M, "            return method.deserialize(Discriminated(self.alias, data))", "            return method.deserialize(Discriminated(self.name, data))", "C03.R1", "DiscriminatorMethod")
    # reverse of the fix: commits
    mb.add_text("literal-indexerror", M, "                    except (KeyError, TypeError, ValidationError):\n", "                    except IndexError:\n", "C03.R", "LiteralMethod")
    mb.add_text("literal-no-typeerror", M, "        except TypeError:\n            raise bad_type(data, *self.types)", "        except AttributeError:\n            raise bad_type(data, *self.types)", "C03.R", "LiteralMethod")
    mb.add_text("coerce-bool-keyerror", C, "            try:\n                return STR_TO_BOOL[data.lower()]  # type: ignore\n            except KeyError:\n                raise bad_type(data, cls)\n", "            return STR_TO_BOOL[data.lower()]  # type: ignore\n", "C03.R1", "coerce")
    mb.add_text("coerce-valueerror-only", C, "        except (ValueError, TypeError, OverflowError):", "        except ValueError:", "C03.R1", "coerce")
    # equivalent since the TypeError handler of the NoneType branch: unhashable data falls through to bad_type
    mb.add_text("neg-coerce-none-no-isinstance", C, "if data is None or (isinstance(data, str) and data in STR_NONE_VALUES):", "if data is None or data in STR_NONE_VALUES:", negative=True)
    mb.add_text("coerce-lower-unguarded", C, "        if isinstance(data, str):\n            try:", "        if not isinstance(data, int):\n            try:", "C03.R1", "coerce")
    mb.add_text("bad-type-from-type", Tm, "    found = _type_name(data.__class__)\n", "    found = JsonType.from_type(data.__class__)\n", "C03.R1", "")
    mb.add_text("float-overflow", M, "            try:\n                return float(data)\n            except OverflowError:\n                raise ValidationError(\"integer too large to be converted to float\")\n", "            return float(data)\n", "C03.R1", "FloatMethod")
    mb.add_text("set-add-unguarded", M, "            try:\n                values.add(value)\n            except TypeError:\n                elt_errors = set_child_error(\n                    elt_errors, i, ValidationError(\"unhashable set element\")\n                )\n", "            values.add(value)\n", "C03.R1", "SetMethod")
    mb.add_text("pattern-nonstr-key", M, "                    if isinstance(key, str) and pattern_field.pattern.match(key)\n", "                    if pattern_field.pattern.match(key)\n", "C03.R1", "ObjectMethod")
    mb.add_text("unique-unhashable", M, "        try:\n            return len(set(map(to_hashable, data))) == len(data)\n        except TypeError:  # unhashable element which is neither a list nor a dict\n            return all(elt not in data[:i] for i, elt in enumerate(data))\n", "        return len(set(map(to_hashable, data))) == len(data)\n", "C03.R1", "UniqueItemsConstraint")
    mb.add_text("errors-sorted-mixed", E, "        try:\n            child_keys = sorted(self.children)\n        except TypeError:  # keys of different types, e.g. str and int\n            child_keys = sorted(\n                self.children, key=lambda key: (key.__class__.__name__, str(key))\n            )\n", "        child_keys = sorted(self.children)\n", "C03.R4", "_errors")
    mb.add_text("loc-raw-key", E, "            loc = child_key if isinstance(child_key, (str, int)) else str(child_key)\n", "            loc = child_key\n", "C03.R4", "loc")
    # new hazards
    mb.add_text("multiple-of-round", M, "        try:\n            return not (data % self.mult_of)\n        except OverflowError:", "        try:\n            quotient = data / self.mult_of\n            return abs(quotient - round(quotient)) < 1e-9\n        except ZeroDivisionError:", "C03.R1", "MultipleOfConstraint")
    mb.add_text("multiple-of-overflow", M, "        try:\n            return not (data % self.mult_of)\n        except OverflowError:  # integer too large to be converted to float\n            from fractions import Fraction\n\n            return not (Fraction(data) % Fraction(self.mult_of))\n", "        return not (data % self.mult_of)\n", "C03.R1", "MultipleOfConstraint")
    mb.add_text("union-bytype-unguarded-lookup", M, "        method = self.method_by_cls.get(data_cls)\n        if method is None:\n", "        method = self.method_by_cls[data_cls] if data is not None else None\n        if method is None:\n", "C03.R", "UnionByTypeMethod")
    mb.add_text("discriminator-no-typeerror", M, "        except (TypeError, KeyError):\n            raise ValidationError(\n                [],", "        except KeyError:\n            raise ValidationError(\n                [],", "C03.R1", "DiscriminatorMethod")
    mb.add_text("int-no-guard", M, "        if not isinstance(data, int) or isinstance(data, bool):\n            raise bad_type(data, int)\n        return data", "        if data < 0 and not isinstance(data, int):\n            raise bad_type(data, int)\n        return data", "C03.R1", "IntMethod")
    mb.add_text("list-no-guard", M, "        if not isinstance(data, list):\n            raise bad_type(data, list)\n        elt_errors: Optional[ErrorDict] = None\n        values: list = [None] * len(data)", "        elt_errors: Optional[ErrorDict] = None\n        values: list = [None] * len(data)", "C03.R1", "ListMethod")
    mb.add_text("mapping-no-guard", M, "        if not isinstance(data, dict):\n            raise bad_type(data, dict)\n        item_errors: Optional[ErrorDict] = None\n        items: dict = {}", "        item_errors: Optional[ErrorDict] = None\n        items: dict = {}", "C03.R1", "MappingMethod")
    mb.add_text("tuple-index-unchecked", M, "        if data_len != len(self.elt_methods):\n            if data_len < len(self.elt_methods):", "        if data_len > len(self.elt_methods):\n            if data_len < len(self.elt_methods):", "C03.R1", "TupleMethod")
    mb.add_text("assert-on-input", M, "        if data is not None:\n            raise bad_type(data, NoneType)\n        return data", "        assert data is None\n        return data", "C03.R1", "NoneMethod")
    mb.add_text("object-required-by-sorted-keys", M, "                requiring = sorted(field.required_by & data.keys())", "                requiring = sorted(data.keys())", "C03.R1", "ObjectMethod")
    mb.add_text("constraints-wrong-key", D, "            dict_constraints = constraints_validators(constraints)[dict]\n            if self.no_copy and check_only(key_method)", "            dict_constraints = constraints_validators(constraints)[list]\n            if self.no_copy and check_only(key_method)", "C03.R1c", "MappingMethod")
    # R3 mutation
    mb.add_text("mutate-input-del", M, "        if has_discriminator:\n            data = data.copy()\n            del data[discriminator]", "        if has_discriminator:\n            del data[discriminator]", "C03.R3", "SimpleObjectMethod")
    mb.add_text("mutate-input-pop", M, "        values: dict = {}\n        fields_count: int = 0\n        errors: Optional[list] = None", "        values: dict = {}\n        data.pop(discriminator, None)\n        fields_count: int = 0\n        errors: Optional[list] = None", "C03.R3", "ObjectMethod")
    mb.add_text("mutate-input-sort", M, "        elt_errors: ErrorDict = {}\n        values: set = set()", "        elt_errors: ErrorDict = {}\n        data.sort(key=repr)\n        values: set = set()", "C03.R3", "SetMethod")
    mb.add_text("mutate-alias-store", M, "        elt_errors: Optional[ErrorDict] = None\n        values: list = [None] * len(data)", "        elt_errors: Optional[ErrorDict] = None\n        values: list = data", "C03.R3", "ListMethod")
    mb.add_text("constructor-adopts-dict", M, "        obj_dict: dict = obj.__dict__\n        obj_dict.update(fields)", "        obj_dict: dict = fields\n        obj.__dict__ = obj_dict", "C03.R3", "FieldsConstructor")
    mb.add_text("lookup-by-exception", M, "        if self.alias not in data:\n            raise ValidationError([], {self.alias: ValidationError(self.missing)})\n        try:\n            method: DeserializationMethod = self.mapping[data[self.alias]]\n        except (TypeError, KeyError):",
                "        try:\n            value = data[self.alias]\n        except KeyError:\n            raise ValidationError([], {self.alias: ValidationError(self.missing)})\n        try:\n            method: DeserializationMethod = self.mapping[value]\n        except (TypeError, KeyError):", "C03.R1", "DiscriminatorMethod")
    # negatives
    mb.add_text("neg-guard-else-form", M, "        if not isinstance(data, str):\n            raise bad_type(data, str)\n        return data", "        if isinstance(data, str):\n            return data\n        else:\n            raise bad_type(data, str)", negative=True)
    mb.add_text("neg-broader-handler", M, "                    except (KeyError, TypeError, ValidationError):\n", "                    except (LookupError, TypeError, ValidationError):\n", negative=True)
    mb.add_text("neg-local-rename", C, "def coerce(cls: Type[T], data: Any) -> T:", "def coerce(cls: Type[T], data: Any, _unused: Any = None) -> T:", negative=True)
