"""C06 - deserialize and deserialization_schema agree on what is valid.

Decides keyword-level agreement between the two sibling visitors: for each type
construct the schema builder emits the keyword whose standard semantics is the
test the method node performs. Not agreement on whole schemas (allOf composition
of flattened fields, $ref resolution, anyOf vs. dispatch).
"""
import ast
from typing import Dict, Set

from ..accept import accept_set
from ..model import AnalysisError
from ..nodes import DESER_MOD
from ..pathcond import path_condition as _pc
from ..util import flatten_boolop, dotted, norm, short, walk_no_nested
from ..visitors import called_hooks, classify_impl, totality

MV = "apischema.deserialization.DeserializationMethodVisitor"
SB = "apischema.json_schema.schema.DeserializationSchemaBuilder"
SBB = "apischema.json_schema.schema.SchemaBuilder"

# JSON Schema `type` semantics on Python data produced by json.loads (draft 2020-12, 6.1.1); "no integer-valued
# floats" is part of the property's common semantic domain
JSON_TYPE_ACCEPTS = {
    "NULL": {"none"}, "BOOLEAN": {"bool"}, "STRING": {"str"}, "INTEGER": {"int"}, "NUMBER": {"int", "float"},
    "ARRAY": {"list"}, "OBJECT": {"dict"},
}
PRIMITIVE_LEAF = {"NoneType": "NoneMethod", "bool": "BoolMethod", "str": "StrMethod", "int": "IntMethod", "float": "FloatMethod"}


def check(ctx):
    model = ctx.model
    ctx.explanations.append(
        "C06: decided - the schema builder and the method compiler implement the same hook set, and a construct one side "
        "rejects is rejected by the other (R1); for every primitive the JSON type the builder emits accepts exactly the "
        "accept-set computed for the leaf node the compiler builds (integer <-> int without bool, number <-> int | float) and "
        "array / object rows likewise (R2); constraint keywords and their checks derive from the same table row, uniqueItems is "
        "only emitted for sets or from the constraint (R3); tuple arity: minItems = maxItems = len(types), prefixItems over the "
        "same types, items false <-> exact length test; mappings: string keys only, value schema from the value visit (R4); "
        "objects: required / additionalProperties / dependentRequired / aggregate classification come from the same "
        "field attributes in the same priority order on both sides (R5). Not decided: union acceptance (C13), $ref, "
        "flattened composition (allOf + additionalProperties), per-call schema=, conversions' schemas."
    )
    # ---------------- R1
    ctx.rule("C06.R1", "sibling visitors implement the same hooks", floor=17)
    mm = totality(ctx, "C06.R1", MV)
    sm = totality(ctx, "C06.R1", SB)
    common = {"any", "collection", "enum", "literal", "mapping", "object", "primitive", "subprimitive", "tuple", "union", "_visited_union", "annotated", "dataclass", "named_tuple", "typed_dict", "new_type", "unsupported"}
    for h in sorted(common):
        a, b = mm.get(h), sm.get(h)
        if a is None and b is None:
            continue
        if a is None or b is None:
            # a hook only one side can dispatch to (e.g. _visited_union is bypassed by the compiler's own union())
            continue
        ka, kb = a[1], b[1]
        ctx.check(ka.startswith("rejects") == kb.startswith("rejects"), "C06.R1", f"parity:{h}", None,
                  f"hook `{h}`: method compiler is {ka}, schema builder is {kb}: one side supports a construct the other rejects", None, None, detail=f"{ka} / {kb}", nontrivial=False)

    # ---------------- R2
    ctx.rule("C06.R2", "the JSON type emitted for a construct accepts exactly what the node built for it accepts", floor=9)
    prim = model.func(f"{SBB}.primitive")
    ctx.check("JsonType.from_type(cls)" in norm(prim.node), "C06.R2", prim.qualname, prim.node.body[0], "schema of a primitive is no longer JsonType.from_type(cls)", prim, prim.node, detail="type=JsonType.from_type(cls)")
    table = model.module_value("apischema.json_schema.types", "TYPE_TO_JSON_TYPE")
    ctx.require(isinstance(table, ast.Dict), "TYPE_TO_JSON_TYPE is not a dict literal")
    rows = {dotted(k): dotted(v).split(".")[-1] for k, v in zip(table.keys, table.values)}
    # which leaf does the compiler build for `cls is X` ?
    pf = model.func(f"{MV}.primitive.<locals>.factory")
    built: Dict[str, Set[str]] = {}
    for n in walk_no_nested(pf.node):
        if isinstance(n, ast.If):
            cur = n
            while True:
                t = cur.test
                if isinstance(t, ast.Compare) and isinstance(t.ops[0], ast.Is) and norm(t.left) == "cls":
                    k = dotted(t.comparators[0])
                    for s in cur.body:
                        for c in ast.walk(s):
                            if isinstance(c, ast.Call):
                                nm = (dotted(c.func) or "").split(".")[-1]
                                if f"{DESER_MOD}.{nm}" in model.classes:
                                    built.setdefault(k, set()).add(nm)
                if len(cur.orelse) == 1 and isinstance(cur.orelse[0], ast.If):
                    cur = cur.orelse[0]
                else:
                    break
            break
    ctx.require(len(built) >= 5, f"primitive(): only {sorted(built)} branches recognised")
    for py, jt in sorted(rows.items()):
        want = JSON_TYPE_ACCEPTS.get(jt)
        ctx.require(want is not None, f"unknown JsonType member {jt}")
        if py in built:
            for leaf in sorted(built[py]):
                acc = accept_set(model, f"{DESER_MOD}.{leaf}")
                ctx.check(acc == want, "C06.R2", f"{py}->{jt.lower()}:{leaf}", None,
                          f"schema says `type: {jt.lower()}` (accepts {sorted(want)}) but {leaf} accepts {sorted(acc)}: {sorted(acc ^ want)} is valid for one and not the other",
                          None, None, detail=f"{jt.lower()} <-> {sorted(acc)}")
                if acc != want:
                    m = model.find_method(f"{DESER_MOD}.{leaf}", "deserialize")
                    ctx.findings[-1].file, ctx.findings[-1].line = m.module.relpath, m.node.lineno
    for hook, jt, leaves in (("collection", "ARRAY", ["ListMethod", "ListCheckOnlyMethod", "SetMethod"]), ("tuple", "ARRAY", ["TupleMethod"]), ("mapping", "OBJECT", ["MappingMethod", "MappingCheckOnly"]), ("object", "OBJECT", ["ObjectMethod", "SimpleObjectMethod"])):
        bh = model.find_method(SB, hook)
        ctx.check(f"type=JsonType.{jt}" in norm(bh.node), "C06.R2", f"{hook}:schema-type", bh.node.body[0], f"schema of `{hook}` is no longer of type {jt.lower()}", bh, bh.node, detail=f"type={jt.lower()}")
        for leaf in leaves:
            acc = accept_set(model, f"{DESER_MOD}.{leaf}")
            ctx.check(acc == JSON_TYPE_ACCEPTS[jt], "C06.R2", f"{hook}->{jt.lower()}:{leaf}", None, f"{leaf} accepts {sorted(acc)} but the schema says type {jt.lower()}", None, None, detail=f"{jt.lower()} <-> {sorted(acc)}")

    # ---------------- R3
    ctx.rule("C06.R3", "constraints: schema keyword and runtime check derive from the same table row", floor=3)
    mi = model.func("apischema.constraints.Constraints.merge_into")
    t = norm(mi.node)
    ctx.check("alias = metadata.alias" in t and "base_schema[alias]" in t and "self.attr_and_metata" in t, "C06.R3", mi.qualname, mi.node.body[0], "Constraints.merge_into no longer writes base_schema[metadata.alias] for the rows of attr_and_metata", mi, mi.node, detail="base_schema[metadata.alias] = attr")
    cv = model.func("apischema.deserialization.constraints_validators")
    t = norm(cv.node)
    ctx.check("constraints.attr_and_metata" in t and "metadata.alias" in t and "metadata.cls" in t, "C06.R3", cv.qualname, cv.node.body[0], "constraints_validators no longer iterates the same attr_and_metata rows", cv, cv.node, detail="same rows, same metadata")
    col = model.find_method(SB, "collection")
    ctx.check("uniqueItems=issubclass(cls, AbstractSet)" in norm(col.node), "C06.R3", col.qualname + ":uniqueItems", col.node.body[0], "uniqueItems must only be emitted for set types (exempted by the property) or through the `unique` constraint", col, col.node, detail="uniqueItems=issubclass(cls, AbstractSet)")
    # skipped values: None / False constraints are not checked, and not emitted
    ctx.check("if attr is None or attr is False" in norm(cv.node) and "if attr is not None" in norm(mi.node), "C06.R3", "unset-constraints", None, "unset constraints are no longer skipped consistently on both sides", None, None, detail="None skipped on both sides")

    # ---------------- R4
    ctx.rule("C06.R4", "tuple / collection / mapping rows agree", floor=5)
    bt = model.find_method(SB, "tuple")
    t = norm(bt.node)
    ok = "minItems=len(types)" in t and "maxItems=len(types)" in t and "prefixItems=[self.visit(cls) for cls in types]" in t and "items=False" in t
    ctx.check(ok, "C06.R4", bt.qualname, bt.node.body[0], "tuple schema must be prefixItems over the types, items false, minItems = maxItems = len(types)", bt, bt.node, detail="exact arity")
    mt = model.func(f"{MV}.tuple")
    t = norm(mt.node)
    ok = "[self.visit(tp) for tp in types]" in t and "Constraints(min_items=len(types))" in t and "Constraints(max_items=len(types))" in t
    ctx.check(ok, "C06.R4", mt.qualname, mt.node.body[0], "tuple method must have one element method per type and length errors for exactly len(types)", mt, mt.node, detail="len(types) on both sides")
    tm = model.func(f"{DESER_MOD}.TupleMethod.deserialize")
    # the length is compared with the number of element methods with `!=`, or refused on both sides (`<` and `>` each leading to a raise)
    raising_ops = set()
    par6 = {c_: p_ for p_ in ast.walk(tm.node) for c_ in ast.iter_child_nodes(p_)}
    for n_ in ast.walk(tm.node):
        if isinstance(n_, ast.If) and isinstance(n_.test, ast.Compare) and len(n_.test.ops) == 1 and "len(self.elt_methods)" in (norm(n_.test.left), norm(n_.test.comparators[0])) \
                and any(isinstance(x_, ast.Raise) for b_ in n_.body for x_ in ast.walk(b_)):
            # reachable for every length on that side: the enclosing tests on the length, if any, are `!=`
            anc, blocked = par6.get(n_), False
            while anc is not None and anc is not tm.node:
                if isinstance(anc, ast.If) and "len(self.elt_methods)" in norm(anc.test) and not (isinstance(anc.test, ast.Compare) and len(anc.test.ops) == 1 and isinstance(anc.test.ops[0], ast.NotEq)):
                    blocked = True
                anc = par6.get(anc)
            if blocked:
                continue
            op_ = type(n_.test.ops[0])
            if norm(n_.test.left) == "len(self.elt_methods)":      # operands the other way round
                op_ = {ast.Lt: ast.Gt, ast.Gt: ast.Lt, ast.LtE: ast.GtE, ast.GtE: ast.LtE}.get(op_, op_)
            raising_ops.add(op_)
    exact = ast.NotEq in raising_ops or {ast.Lt, ast.Gt} <= raising_ops
    ctx.check(exact, "C06.R4", tm.qualname, tm.node.body[0], "TupleMethod no longer requires the exact length", tm, tm.node, detail="len(data) == len(elt_methods)")
    bm = model.find_method(SB, "mapping")
    t = norm(bm.node)
    ok = ("key['type'] != JsonType.STRING" in t or "key.get('type') != JsonType.STRING" in t) and "raise ValueError" in t and "additionalProperties=value" in t and "patternProperties={key['pattern']: value}" in t
    ctx.check(ok, "C06.R4", bm.qualname, bm.node.body[0], "mapping schema must refuse non-string keys and describe values through additionalProperties / patternProperties", bm, bm.node, detail="string keys; value schema")
    bc = model.find_method(SB, "collection")
    ctx.check("items=self.visit(value_type)" in norm(bc.node), "C06.R4", bc.qualname, bc.node.body[0], "collection schema `items` is not the value type's schema", bc, bc.node, detail="items=self.visit(value_type)")

    # ---------------- R5
    ctx.rule("C06.R5", "object row: required / additional / dependentRequired / aggregate classification from the same sources", floor=6)
    bo = model.func(f"{SBB}.object")
    mo = model.func(f"{MV}.object")
    mo_f = model.func(f"{MV}.object.<locals>.factory")
    bp = model.func(f"{SB}.properties")
    pc = [c for c in ast.walk(bp.node) if isinstance(c, ast.Call) and dotted(c.func) == "Property"]
    ok = bool(pc) and len(pc[0].args) >= 4 and norm(pc[0].args[3]) == "field.required"
    ctx.check(ok, "C06.R5", bp.qualname + ":required", pc[0] if pc else bp.node.body[0], "schema `required` of a deserialized property is not exactly field.required (what the deserializer enforces)", bp, bp.node, detail="Property(required=field.required)")
    fcall = [c for c in walk_no_nested(mo_f.node) if isinstance(c, ast.Call) and dotted(c.func) == "Field"]
    ok = bool(fcall) and any(norm(a) == "field.required" for a in fcall[0].args)
    ctx.check(ok, "C06.R5", mo.qualname + ":required", fcall[0] if fcall else mo.node, "Field.required is not field.required", mo, mo.node, detail="field.required")
    for fi, txt in ((bo, norm(bo.node)), (mo_f, norm(mo_f.node))):
        ctx.check("get_dependent_required(cls)" in txt, "C06.R5", fi.qualname + ":dependentRequired", fi.node.body[0],
                  "dependent-required is not taken from get_dependent_required(cls) on this side: the schema's dependentRequired and the deserializer's check would be computed differently", fi, fi.node, detail="get_dependent_required(cls)")
        ctx.check("self.additional_properties" in txt, "C06.R5", fi.qualname + ":additional", fi.node.body[0], "additional properties do not come from self.additional_properties on this side", fi, fi.node, detail="self.additional_properties")

    def chain_order(fn):
        for n in ast.walk(fn):
            if isinstance(n, ast.If) and norm(n.test) == "field.flattened":
                order = []
                cur = n
                while True:
                    order.append(norm(cur.test))
                    if len(cur.orelse) == 1 and isinstance(cur.orelse[0], ast.If):
                        cur = cur.orelse[0]
                    else:
                        return order
        return None
    a, b = chain_order(bo.node), chain_order(mo_f.node)
    want = ["field.flattened", "field.pattern_properties is not None", "field.additional_properties"]
    ctx.check(a == want and b == want, "C06.R5", "aggregate-classification", None, f"aggregate fields are classified in different priority order: schema {a}, methods {b}", None, None, detail=str(want))
    # requiring keys are aliased on the method side like dependentRequired on the schema side (C11) - referenced, not re-checked

    # ---------------- R6: folding of union alternatives
    ctx.rule("C06.R6", "union folding: keywords that constrain every instance type (const / enum) are never kept when `null` (or another type) is merged into `type`", floor=2)
    from ..pathcond import parents_of, path_condition
    vu = model.func(f"{SBB}._visited_union")
    parents = parents_of(vu.node)
    n_sites = 0
    for d in ast.walk(vu.node):
        # a schema copied with `**other` and a widened "type"
        if isinstance(d, ast.Dict) and any(k is None for k in d.keys) and any(isinstance(k, ast.Constant) and k.value == "type" for k in d.keys if k is not None):
            n_sites += 1
            cond = path_condition(vu.node, d, parents)
            consts = {c.value for c in ast.walk(cond) if isinstance(c, ast.Constant) and isinstance(c.value, str)}
            ctx.check({"const", "enum"} <= consts, "C06.R6", f"{vu.qualname}:nullable-merge", d,
                      "`null` is added to the `type` list of a schema copied with all its other keywords, without excluding `const` / `enum`: these apply to every instance type, so the schema rejects null while deserialize(Optional[Literal[..]] / Optional[Enum]) accepts None",
                      vu, d, detail="guarded by the absence of const / enum")
        # `type=[...]` list built from several alternatives
        if isinstance(d, ast.Call) and (dotted(d.func) or "") == "json_schema" and any(k.arg == "type" for k in d.keywords) and not d.args:
            n_sites += 1
            cond = norm(path_condition(vu.node, d, parents))
            ctx.check('.keys() == {"type"}' in cond.replace("'", '"') and "all(" in cond, "C06.R6", f"{vu.qualname}:type-list", d,
                      "alternatives are folded into one `type` list although some carry other keywords (which would be dropped: the schema accepts more than the union)", vu, d, detail="only when every alternative is {type: ...}")
    ctx.check(n_sites >= 2, "C06.R6", f"{vu.qualname}:sites", vu.node.body[0], "the folding sites of _visited_union were not recognised", vu, vu.node, nontrivial=False)

    # ---------------- R7: keyword filter of json_schema()
    ctx.rule("C06.R7", "json_schema() drops a keyword only by comparing its value with the parameter's default: never by truthiness / emptiness / type of the value (const=\"\", enum=[], default=0 are meaningful)", floor=2)
    keyword_filter_rule(ctx)

    # ---------------- R8: every source of a schema is enforced by the deserializer
    ctx.rule("C06.R8", "each source of schema() metadata the schema builder merges (type, generic origin, Annotated, field, per-call) is merged as constraints by the method compiler, and the merged factory is kept", floor=10)
    schema_source_rule(ctx)

    # ---------------- R14: the pattern inferred for a `properties(...)` field
    ctx.rule("C06.R14", "the pattern inferred for a `properties(...)` field is the single `patternProperties` key of the schema of the field's own (mapping) type, and only when that schema has no additionalProperties: the deserializer routes the keys with it and the schema publishes it - both call infer_pattern with the field type and the default conversion", floor=3)
    ip = model.func("apischema.json_schema.patterns.infer_pattern")
    rets14 = [r for r in ast.walk(ip.node) if isinstance(r, ast.Return) and r.value is not None]
    from ..pathcond import parents_of as _po14, path_condition as _pc14
    pm14 = _po14(ip.node)
    from ..util import expand_locals
    ok14 = len(rets14) == 1 and norm(expand_locals(rets14[0].value, ip.node, keep=('prop_schema',))) in ("next(iter(prop_schema['patternProperties']))", "next(iter(prop_schema.get('patternProperties', {})))")
    conj14 = set()
    if len(rets14) == 1:
        c14 = _pc14(ip.node, rets14[0], pm14)
        conj14 = {norm(expand_locals(x, ip.node, keep=('prop_schema',))) for x in flatten_boolop(c14, ast.And)} if c14 is not None else set()
    want14 = {"len(prop_schema.get('patternProperties', {})) == 1", "'additionalProperties' not in prop_schema"}
    ctx.check(ok14 and want14 <= conj14, "C06.R14", f"{ip.qualname}:single-pattern", None,
              f"the inferred pattern is returned under {sorted(conj14)}: it must be the only patternProperties key of a schema without additionalProperties (otherwise the pattern field would claim keys its type does not constrain, or one pattern among several)",
              ip, rets14[0] if rets14 else ip.node, detail=" and ".join(sorted(want14)))
    ctx.check(any(isinstance(r, ast.Raise) and "TypeError" in norm(r) for r in ast.walk(ip.node)), "C06.R14", f"{ip.qualname}:refusal", None, "a type without a single key pattern is no longer refused", ip, ip.node, detail="raise TypeError", nontrivial=False)
    users = []
    for fi in model.functions.values():
        for c in walk_no_nested(fi.node):
            if isinstance(c, ast.Call) and dotted(c.func) == "infer_pattern":
                users.append((fi, c))
    ctx.check(len(users) >= 2 and all(len(c.args) == 2 and norm(c.args[0]) == "field.type" and norm(c.args[1]) == "self.default_conversion" for _, c in users), "C06.R14", "infer_pattern:callers", None,
              f"the callers of infer_pattern ({[f.qualname.split('.')[-2] + '.' + f.name for f, _ in users]}) do not all pass (field.type, self.default_conversion): the deserializer and the schema would infer different patterns", None, None, detail="infer_pattern(field.type, self.default_conversion) on both sides")


SOURCE_KINDS = {
    "type": (("get_schema(tp)",), "the schema() registered on the type"),
    "origin": (("get_schema(get_origin(tp))", "get_schema(get_origin_or_type(tp))"), "the schema() registered on the generic origin"),
    "annotated": (("annotation.get(SCHEMA_METADATA)", "annotation[SCHEMA_METADATA]"), "schema() metadata in Annotated"),
    "field": (("f.schema", "field.schema"), "schema() metadata of an object field"),
    "call": (("schema",), "the per-call schema argument"),
}


def schema_source_rule(ctx):
    model = ctx.model
    sides = {
        "schema": [fi for fi in model.functions.values() if fi.module.name == "apischema.json_schema.schema"],
        "method": [fi for fi in model.functions.values() if fi.module.name == "apischema.deserialization"],
    }
    found = {side: {} for side in sides}
    for side, fns in sides.items():
        for fi in fns:
            parents = {c: p for p in ast.walk(fi.node) for c in ast.iter_child_nodes(p)}
            for n in walk_no_nested(fi.node, include_lambda=True):
                if not isinstance(n, (ast.Call, ast.Attribute, ast.Subscript, ast.Name)):
                    continue
                t = norm(n)
                for kind, (forms, _) in SOURCE_KINDS.items():
                    if t not in forms:
                        continue
                    if kind == "call":
                        # the per-call `schema` parameter of the public entry points
                        if not (isinstance(n, ast.Name) and "schema" in fi.params and fi.parent is None and fi.cls is None and isinstance(n.ctx, ast.Load)):
                            continue
                        if side == "schema" and fi.name not in ("deserialization_schema", "_schema"):
                            continue
                    if kind == "field" and side == "method" and not isinstance(parents.get(n), ast.Call):
                        continue
                    found[side].setdefault(kind, []).append((fi, n, parents))
    for kind, (forms, what) in SOURCE_KINDS.items():
        for side in ("schema", "method"):
            ctx.check(bool(found[side].get(kind)), "C06.R8", f"{kind}:{side}", None,
                      f"{what} is consumed by the {'method compiler' if side == 'schema' else 'schema builder'} but no longer by the {'schema builder' if side == 'schema' else 'method compiler'}: schema and deserializer disagree on the constraints of such types",
                      None, None, detail=f"one of {forms}")
        # on the method side the source must flow into `X.merge(get_constraints(<source>), ...)` whose result is kept
        for fi, n, parents in found["method"].get(kind, []):
            gc = parents.get(n)
            if not (isinstance(gc, ast.Call) and (dotted(gc.func) or "") == "get_constraints"):
                continue
            mg = parents.get(gc)
            construct = f"{fi.qualname}:{kind}"
            ok = isinstance(mg, ast.Call) and isinstance(mg.func, ast.Attribute) and mg.func.attr == "merge"
            kept = False
            if ok:
                p = parents.get(mg)
                while isinstance(p, (ast.Attribute, ast.Call)):
                    p = parents.get(p)
                kept = isinstance(p, (ast.Assign, ast.Return, ast.AnnAssign, ast.ListComp, ast.List, ast.Tuple, ast.GeneratorExp, ast.comprehension, ast.keyword)) or isinstance(p, ast.Starred)
            ctx.check(ok and kept, "C06.R8", construct, n, f"`{short(gc, 60)}`: the constraints of this source are computed but not merged into the factory that is used (the JSON schema still shows them)", fi, n, detail="factory = factory.merge(get_constraints(<source>), ...)")
        # ... through get_constraints(<source>), or by reading `<source>.constraints` directly (what get_constraints does for a schema that is not None)
        ctx.check(any((isinstance(p.get(n), ast.Call) and (dotted(p.get(n).func) or "") == "get_constraints") or (isinstance(p.get(n), ast.Attribute) and p.get(n).attr == "constraints")
                      for fi, n, p in found["method"].get(kind, [])), "C06.R8", f"{kind}:constraints", None,
                  f"{what} never reaches get_constraints() in the method compiler", None, None, detail="get_constraints(<source>)")
    # the generic-origin source is consulted under the same guard on both sides
    for side in ("schema", "method"):
        for fi, n, parents in found[side].get("origin", []):
            p = parents.get(n)
            guarded = False
            while p is not None:
                if isinstance(p, ast.If) and norm(p.test) == "get_args(tp)":
                    guarded = True
                p = parents.get(p)
            ctx.check(guarded, "C06.R8", f"{fi.qualname}:origin-guard", n, "the schema of the generic origin is consulted without the `get_args(tp)` guard its sibling uses", fi, n, detail="if get_args(tp)")

    # ---------------- R10: literal / enum schema
    ctx.rule("C06.R10", "Literal / Enum schema: `const` for exactly one value, `enum` with every value otherwise, `type` from the JSON types of the values", floor=3)
    lit = model.func(f"{SBB}.literal")
    pm10 = {c: p for p in ast.walk(lit.node) for c in ast.iter_child_nodes(p)}
    from ..boolx import BoolEval as _BE, Unknown as _Unk
    from ..pathcond import complements as _compl
    ev10 = _BE(_compl({"len(values) == 1": "single", "values": "nonempty", "not values": "!nonempty"}))
    seen10 = set()
    for r in ast.walk(lit.node):
        if not (isinstance(r, ast.Return) and isinstance(r.value, ast.Call) and dotted(r.value.func) == "json_schema"):
            continue
        kws = {k.arg: k.value for k in r.value.keywords}
        try:
            got = ev10.compile(_pc(lit.node, r, pm10))
        except _Unk as err:
            ctx.undecided("C06.R10", f"{lit.qualname}: {err}")
            continue
        for kw, want_single, arg in (("const", True, "values[0]"), ("enum", False, "values")):
            if kw in kws:
                seen10.add(kw)
                ok = all(bool(got({"single": sv, "nonempty": True})) == (sv == want_single) for sv in (False, True)) and norm(kws[kw]) == arg
                ctx.check(ok, "C06.R10", f"{lit.qualname}:{kw}", r, f"`{short(r, 60)}`: `{kw}` must be emitted " + ("for exactly one value (const=values[0])" if want_single else "for several values, listing all of them (enum=values)") + ": the schema accepts other data than the deserializer", lit, r, detail=f"{kw}={arg} iff {'one value' if want_single else 'several values'}")
        tk = kws.get("type")
        ctx.check(tk is not None, "C06.R10", f"{lit.qualname}:type", r, "the literal schema has no `type`", lit, r, detail="type from the values", nontrivial=False)
    ctx.check(seen10 == {"const", "enum"}, "C06.R10", f"{lit.qualname}:forms", lit.node.body[0], f"literal() no longer emits both forms (found {sorted(seen10)})", lit, lit.node, detail="const and enum")
    ttxt = norm(lit.node)
    ctx.check("JsonType.from_type(type(v)) for v in literal_values(values)" in ttxt, "C06.R10", f"{lit.qualname}:type-source", lit.node.body[0], "the `type` of a literal schema is not computed from the JSON types of its values", lit, lit.node, detail="JsonType.from_type(type(v)) over literal_values(values)")
    # ---------------- R11: discriminated unions under standard JSON Schema semantics
    ctx.rule("C06.R11", "discriminated union schemas are valid for plain JSON Schema validators (which ignore the OpenAPI `discriminator` keyword): every member admits the discriminator property and fixes its value", floor=2)
    an_ = model.func(f"{SBB}.annotated")
    vc_ = model.func(f"{SBB}.visit_conversion")
    a_txt, v_txt = norm(an_.node), norm(vc_.node)
    # (a) the annotated path must give the members the discriminator property, like the inherited path does
    inherited_declares = "properties" in v_txt and "discriminator_alias" in v_txt and "required" in v_txt
    ctx.require(inherited_declares, "visit_conversion no longer declares the discriminator property for inherited discriminators: R11 must be re-derived")
    annotated_declares = "discriminator" in a_txt and ('"properties"' in a_txt or "properties=" in a_txt)
    ctx.check(annotated_declares, "C06.R11", f"{an_.qualname}:discriminator-property", None,
              "Annotated[Union[...], discriminator(alias)] emits `oneOf` of the members' own schemas: a member without a field for the discriminator has additionalProperties: false and no such property, so every datum carrying the discriminator key is invalid for the schema while deserialize requires that key",
              an_, an_.node, detail="members declare / require the discriminator property")
    # (b) members fix the value of the discriminator, otherwise `oneOf` members overlap
    fixes_value = any(isinstance(c, ast.Call) and dotted(c.func) == "json_schema" and any(k.arg in ("const", "enum") for k in c.keywords) and "discriminator" in norm(c) for f_ in (an_, vc_) for c in ast.walk(f_.node)) \
        or "const" in norm(model.func(f"{SBB}.discriminator_schema").node)
    ctx.check(fixes_value, "C06.R11", f"{vc_.qualname}:discriminator-values", None,
              "the discriminator property is typed `string` for every member and its expected value only appears in the OpenAPI `discriminator.mapping`: for a standard validator the `oneOf` members overlap (a datum valid for Cat is valid for Dog when Dog only adds optional fields) and the union schema rejects data deserialize accepts",
              vc_, vc_.node, detail="const / enum on the discriminator property of each member")
    # ---------------- R12: allOf composition of object schemas
    ctx.rule("C06.R12", "an object schema placed in an `allOf` next to other object schemas is open (additionalProperties not false): each member only sees its own properties, closure is the job of unevaluatedProperties", floor=2)
    allof_composition_rule(ctx, "C06.R12")
    # ---------------- R13: constraints of properties(...) fields
    ctx.rule("C06.R13", "the object schema of a pattern / additional-properties field contributes all its keywords to the parent (size bounds, key constraints), not only its value sub-schema", floor=1)
    ps = model.func(f"{SBB}._properties_schema")
    obj_ = model.func(f"{SBB}.object")
    returned = [norm(r.value) for r in ast.walk(ps.node) if isinstance(r, ast.Return) and r.value is not None]
    only_values = all(("[" in r and ("patternProperties" in r or "additionalProperties" in r)) or r == "JsonSchema()" or r.startswith("next(iter(") for r in returned)
    carried = any(k in norm(obj_.node) or k in norm(ps.node) for k in ("minProperties", "maxProperties", "propertyNames"))
    ctx.check(not only_values or carried, "C06.R13", f"{ps.qualname}:dropped-keywords", None,
              "a field declared with properties / properties(pattern) is reduced to the value sub-schema of its Mapping schema: `minProperties` / `maxProperties` set on the field, and the key constraints of its Mapping key type, disappear from the parent's schema while deserialize enforces them on the captured properties",
              ps, ps.node, detail="size bounds and key constraints propagated")
    # ---------------- R9: mapping keys
    ctx.rule("C06.R9", "Mapping schema: every keyword of the key's schema is enforced on property names (the deserializer validates each key with the key type's method)", floor=2)
    mp = model.func(f"{SBB}.mapping")
    pm9 = {c: p for p in ast.walk(mp.node) for c in ast.iter_child_nodes(p)}
    n9 = 0
    for r in ast.walk(mp.node):
        if not (isinstance(r, ast.Return) and isinstance(r.value, ast.Call) and dotted(r.value.func) == "json_schema"):
            continue
        kws = {k.arg: k.value for k in r.value.keywords}
        cond = norm(_pc(mp.node, r, pm9))
        n9 += 1
        if "patternProperties" in kws:
            closed = "propertyNames" in kws or (("additionalProperties" in kws) and norm(kws["additionalProperties"]) == "False")
            ctx.check(closed, "C06.R9", f"{mp.qualname}:pattern-keys", r,
                      "keys constrained by a pattern give `patternProperties` only: names that do not match the pattern stay valid for the schema (additionalProperties defaults to true) while deserialize rejects them", mp, r, detail="additionalProperties: false or propertyNames")
        else:
            exhaustive = any(f in cond.replace("'", '"') for f in ('key.keys() == {"type"}', 'key == {"type": "string"}', "len(key) == 1", 'set(key) == {"type"}')) or "propertyNames" in kws
            ctx.check(exhaustive, "C06.R9", f"{mp.qualname}:other-key-keywords", r,
                      "a key schema with keywords other than `type` / `pattern` (minLength, maxLength, enum of a Literal key, format) is reduced to a bare `additionalProperties`: the schema accepts any property name while deserialize validates each key", mp, r, detail="only for key == {type: string}, else propertyNames")
    ctx.require(n9 >= 2, "SchemaBuilder.mapping: return sites not recognised")


def allof_composition_rule(ctx, rule):
    model = ctx.model
    ob12 = model.func(f"{SBB}.object")
    pm12 = {c: p for p in ast.walk(ob12.node) for c in ast.iter_child_nodes(p)}
    opened = {}
    for a in ast.walk(ob12.node):
        if isinstance(a, ast.Assign) and norm(a.targets[0]) == "additional_properties" and isinstance(a.value, ast.Constant) and a.value.value is True:
            opened[a] = norm(_pc(ob12.node, a, pm12))
    composed = [r for r in ast.walk(ob12.node) if isinstance(r, ast.Return) and isinstance(r.value, ast.Call) and dotted(r.value.func) == "json_schema" and any(k.arg == "allOf" for k in r.value.keywords)]
    ctx.require(len(composed) >= 2, "SchemaBuilder.object: allOf compositions not found")
    for r in composed:
        cond = norm(_pc(ob12.node, r, pm12))
        # what makes this composition happen, and is the own member opened under the same circumstance?
        cause = "flattened_schemas" if "flattened_schemas" in cond and "not flattened_schemas" not in cond else "discriminator_parent"
        ok = any(cause.split("_")[0] in c_ or (cause == "discriminator_parent" and "discriminator_parent" in c_) for c_ in opened.values())
        ctx.check(ok, rule, f"{ob12.qualname}:allOf:{cause}", r,
                  f"the object's own member of the `allOf` built for {cause.replace('_', ' ')} keeps `additionalProperties: false` (and flattened classes are referenced through their closed definitions): every member rejects the properties of the others, so the schema rejects the data deserialize accepts",
                  ob12, r, detail="additional_properties = True on this path")


def keyword_filter_rule(ctx):
    model = ctx.model
    w = model.func("apischema.json_schema.types.json_schema_kwargs.<locals>.wrapper")
    gens = [g for g in ast.walk(w.node) if isinstance(g, ast.comprehension) and isinstance(g.iter, ast.Call) and norm(g.iter.func) == "kwargs.items"]
    ctx.require(len(gens) == 1 and isinstance(gens[0].target, ast.Tuple) and len(gens[0].target.elts) == 2, "json_schema_kwargs: the (k, v) filter over kwargs.items() was not found")
    vname = norm(gens[0].target.elts[1])

    def uses(fn_node, var, exprs, fi, depth=0):
        """classify every read of `var` inside exprs"""
        parents = {c: p for e in exprs for p in ast.walk(e) for c in ast.iter_child_nodes(p)}
        for e in exprs:
            for n in ast.walk(e):
                if not (isinstance(n, ast.Name) and n.id == var and isinstance(n.ctx, ast.Load)):
                    continue
                p = parents.get(n)
                ok, why = False, f"`{var}` is used as `{short(p, 50) if p is not None else var}`"
                if isinstance(p, ast.Compare) and len(p.ops) == 1:
                    other = p.comparators[0] if p.left is n else p.left
                    if isinstance(p.ops[0], (ast.Eq, ast.NotEq)) and ("default" in norm(other)):
                        ok = True
                    elif isinstance(p.ops[0], (ast.In, ast.NotIn)) and p.left is n and isinstance(other, ast.Tuple):
                        ok = True
                elif isinstance(p, ast.Call) and n in p.args and depth < 2:
                    q = model.resolve_name(fi.module, dotted(p.func) or "")
                    callee = model.functions.get(q) if q else None
                    if callee is not None:
                        idx = p.args.index(n)
                        if idx < len(callee.params):
                            body = [st for st in callee.node.body]
                            uses(callee.node, callee.params[idx], body, callee, depth + 1)
                            continue
                ctx.check(ok, "C06.R7", f"{fi.qualname}:{var}", p if p is not None else n,
                          f"{why}: the decision to drop a keyword must only compare the value with the parameter default", fi, n, detail="== / != default, or membership in a literal tuple")

    uses(w.node, vname, list(gens[0].ifs), w)


def mutants(mb):
    mb.add_text("infer-pattern-ignores-additional", "apischema/json_schema/patterns.py", "            len(prop_schema.get(\"patternProperties\", {})) == 1\n            and \"additionalProperties\" not in prop_schema\n", "            len(prop_schema.get(\"patternProperties\", {})) == 1\n", "C06.R14", "single-pattern")
    mb.add_text("infer-pattern-first-of-many", "apischema/json_schema/patterns.py", "            len(prop_schema.get(\"patternProperties\", {})) == 1\n", "            len(prop_schema.get(\"patternProperties\", {})) >= 1\n", "C06.R14", "single-pattern")
    M = "apischema/deserialization/methods.py"
    D = "apischema/deserialization/__init__.py"
    J = "apischema/json_schema/schema.py"
    T = "apischema/json_schema/types.py"
    mb.add_text("float-bool", M, "        elif isinstance(data, int) and not isinstance(data, bool):", "        elif isinstance(data, int):", "C06.R2", "FloatMethod")
    mb.add_text("int-as-number", T, "    int: JsonType.INTEGER,", "    int: JsonType.NUMBER,", "C06.R2", "int")
    mb.add_text("float-as-integer", T, "    float: JsonType.NUMBER,", "    float: JsonType.INTEGER,", "C06.R2", "float")
    mb.add_text("tuple-no-maxitems", J, "            minItems=len(types),\n            maxItems=len(types),\n", "            minItems=len(types),\n", "C06.R4", "tuple")
    mb.add_text("tuple-items-open", J, "            items=False,\n            minItems=len(types),", "            minItems=len(types),", "C06.R4", "tuple")
    mb.add_text("tuple-method-lenient", M, "        if data_len != len(self.elt_methods):\n            if data_len < len(self.elt_methods):", "        if data_len < len(self.elt_methods):\n            if data_len < len(self.elt_methods):", "C06.R4", "TupleMethod")
    mb.add_text("unique-for-lists", J, "            uniqueItems=issubclass(cls, AbstractSet),", "            uniqueItems=True,", "C06.R3", "uniqueItems")
    mb.add_text("schema-required-inverted", J, "                field.required,\n                self.visit_field(tp, field, field.required),", "                not field.required,\n                self.visit_field(tp, field, field.required),", "C06.R5", "required")
    mb.add_text("method-requiring-helper", D, "            for f, reqs in get_dependent_required(cls).items():\n                if f not in alias_by_name:  # field skipped for deserialization\n                    continue\n                for req in reqs:\n                    requiring[req].add(alias_by_name[f])\n", "", "C06.R5", "dependentRequired")
    mb.add_text("nullable-merge-keeps-const", J, "            and not any(\"const\" in res or \"enum\" in res for res in results)\n", "", "C06.R6", "nullable-merge")
    mb.add_text("type-list-drops-keywords", J, "        elif all(alt.keys() == {\"type\"} for alt in results):", "        elif all(\"type\" in alt for alt in results):", "C06.R6", "type-list")
    mb.add_text("keyword-filter-emptiness", "apischema/json_schema/types.py", "                v != _json_schema_params[k].default\n", "                (v != _json_schema_params[k].default and bool(v))\n", "C06.R7", "wrapper")
    mb.add_text("annotated-constraints-dropped", D, "                factory = factory.merge(\n                    get_constraints(annotation.get(SCHEMA_METADATA)),\n                    annotation.get(\n                        VALIDATORS_METADATA, ValidatorsMetadata(())\n                    ).validators,\n                )\n", "                pass\n", "C06.R8", "annotated")
    mb.add_text("type-constraints-not-kept", D, "            factory = factory.merge(get_constraints(get_schema(tp)), get_validators(tp))\n", "            factory.merge(get_constraints(get_schema(tp)), get_validators(tp))\n", "C06.R8", "type")
    mb.add_text("origin-constraints-dropped", D, "            if get_args(tp):\n                factory = factory.merge(\n                    get_constraints(get_schema(get_origin(tp))),\n                    get_validators(get_origin(tp)),\n                )\n", "", "C06.R8", "origin")
    mb.add_text("field-constraints-dropped", D, "            self.visit_with_conv(f.type, f.deserialization).merge(\n                get_constraints(f.schema), f.validators\n            )", "            self.visit_with_conv(f.type, f.deserialization)", "C06.R8", "field")
    mb.add_text("neg-nullable-guard-rewritten", J, "            and not any(\"const\" in res or \"enum\" in res for res in results)\n", "            and all(\"const\" not in res and \"enum\" not in res for res in results)\n", negative=True)
    mb.add_text("neg-origin-merge-local", D, "            if get_args(tp):\n                factory = factory.merge(\n                    get_constraints(get_schema(get_origin(tp))),\n                    get_validators(get_origin(tp)),\n                )\n", "            if get_args(tp):\n                origin = get_origin(tp)\n                factory = factory.merge(\n                    get_constraints(get_schema(get_origin(tp))),\n                    get_validators(origin),\n                )\n", negative=True)
    mb.add_text("literal-single-flipped", J, "        if len(values) == 1:\n            return json_schema(type=type_, const=values[0])", "        if len(values) != 1:\n            return json_schema(type=type_, const=values[0])", "C06.R10", "literal")
    mb.add_text("literal-enum-truncated", J, "            return json_schema(type=type_, enum=values)", "            return json_schema(type=type_, enum=values[1:])", "C06.R10", "literal:enum")
    mb.add_text("aggregate-order", J, "            if field.flattened:\n                self._object_schema(cls, field)  # check the field is an object", "            if False:\n                self._object_schema(cls, field)  # check the field is an object", "C06.R5", "aggregate")
    mb.add_text("mapping-any-keys", J, "        if \"type\" not in key or key[\"type\"] != JsonType.STRING:\n            raise ValueError(\"Mapping types must have string-convertible keys\")\n", "", "C06.R4", "mapping")
    mb.add_text("schema-hook-missing", J, "    def any(self) -> JsonSchema:\n        return JsonSchema()\n", "", "C06.R1", "any")
