"""C18 - schema dialect conversion preserves the set of valid instances.

Decides vocabulary closure: after the converter chain of a target dialect, no
instance-changing keyword outside the dialect remains; removed keywords are
translated (their value flows into a keyword of the target) unless declared
unsupported; `null` is never removed from a type without `nullable`; conversion
applies at every level; reference prefix agrees with the definitions key; `$ref`
is isolated for dialects ignoring its siblings. Instance-set equality itself is
not decided.
"""
import ast
from typing import Dict, List, Optional, Set, Tuple

from ..boolx import BoolEval, Unknown
from ..model import AnalysisError
from ..pathcond import path_condition
from ..util import dotted, flatten_boolop, norm, short, walk_no_nested

VMOD = "apischema.json_schema.versions"
TMOD = "apischema.json_schema.types"
SMOD = "apischema.json_schema.schema"

# keywords that change the set of valid instances (JSON Schema 2020-12 core + validation + applicator vocabularies)
ASSERTING = {
    "additionalProperties", "allOf", "anyOf", "const", "dependentRequired", "enum", "exclusiveMaximum", "exclusiveMinimum",
    "items", "maximum", "minimum", "maxItems", "minItems", "maxLength", "minLength", "maxProperties", "minProperties",
    "multipleOf", "oneOf", "pattern", "patternProperties", "prefixItems", "properties", "required", "type", "uniqueItems",
    "unevaluatedProperties", "$ref", "additionalItems", "dependencies", "nullable",
    # pseudo-keywords: forms of a keyword that only some dialects define
    "items(array form)", "exclusiveMinimum(number)", "exclusiveMaximum(number)",
}
COMMON = {
    "additionalProperties", "allOf", "anyOf", "enum", "items", "maximum", "minimum", "maxItems", "minItems", "maxLength",
    "minLength", "maxProperties", "minProperties", "multipleOf", "oneOf", "pattern", "properties", "required", "type",
    "uniqueItems", "$ref",
}
# per dialect: asserting keywords it defines (spec references in DESIGN.md section 3 / C18)
VOCAB = {
    "2020-12": COMMON | {"const", "dependentRequired", "exclusiveMaximum", "exclusiveMinimum", "patternProperties", "prefixItems",
                         "unevaluatedProperties", "exclusiveMinimum(number)", "exclusiveMaximum(number)"},
    "2019-09": COMMON | {"const", "dependentRequired", "exclusiveMaximum", "exclusiveMinimum", "patternProperties", "additionalItems",
                         "unevaluatedProperties", "items(array form)", "exclusiveMinimum(number)", "exclusiveMaximum(number)"},
    "draft-07": COMMON | {"const", "dependencies", "exclusiveMaximum", "exclusiveMinimum", "patternProperties", "additionalItems",
                          "items(array form)", "exclusiveMinimum(number)", "exclusiveMaximum(number)"},
    # OpenAPI 3.0.3 Schema Object: no patternProperties, no const, items must be a schema, exclusive* are booleans
    "oas-3.0": COMMON | {"nullable", "exclusiveMaximum", "exclusiveMinimum"},
    "oas-3.1": None,  # = 2020-12
}
VOCAB["oas-3.1"] = VOCAB["2020-12"]
DIALECT_OF = {"DRAFT_2020_12": "2020-12", "DRAFT_2019_09": "2019-09", "DRAFT_7": "draft-07", "OPEN_API_3_0": "oas-3.0", "OPEN_API_3_1": "oas-3.1"}
IGNORES_REF_SIBLINGS = {"draft-07", "oas-3.0"}
URI_TOKEN = {"2020-12": "2020-12", "2019-09": "2019-09", "draft-07": "draft-07"}


def emitted_keywords(model) -> Set[str]:
    js = model.func(f"{TMOD}.json_schema")
    kws = {a.arg for a in js.node.args.kwonlyargs}
    if len(kws) < 30:
        raise AnalysisError("json_schema() signature no longer lists the emitted keywords")
    out = set(kws) | {"$ref", "$defs", "discriminator"}
    out |= {"exclusiveMinimum(number)", "exclusiveMaximum(number)"}  # emitted as numbers (Constraints rows are numeric)
    return out


def const_list(model, name) -> List[str]:
    v = model.module_value(VMOD, name)
    if not isinstance(v, (ast.List, ast.Tuple)) or not all(isinstance(e, ast.Constant) for e in v.elts):
        raise AnalysisError(f"{name} is not a literal list")
    return [e.value for e in v.elts]


class Effects:
    def __init__(self):
        self.removed: Dict[str, ast.AST] = {}      # key -> pop call (removed on every path where present)
        self.dropped: Dict[str, ast.AST] = {}      # removed without its value flowing anywhere
        self.declared_drop: Set[str] = set()       # removed through the OPEN_API_3_0_UNSUPPORTED loop
        self.added: Dict[str, ast.AST] = {}
        self.flows: List[Tuple[str, str]] = []     # (removed key, added key)
        self.calls: List[str] = []
        self.isolates = False
        self.null_removals: List[Tuple[ast.AST, str]] = []
        self.nullable_guards: List[str] = []


def key_of_subscript(n) -> Optional[str]:
    if isinstance(n, ast.Subscript) and isinstance(n.value, ast.Name) and n.value.id == "result" and isinstance(n.slice, ast.Constant) and isinstance(n.slice.value, str):
        return n.slice.value
    return None


def pops_in(e) -> List[Tuple[str, ast.Call]]:
    out = []
    for x in ast.walk(e):
        if isinstance(x, ast.Call) and isinstance(x.func, ast.Attribute) and x.func.attr == "pop" and isinstance(x.func.value, ast.Name) and x.func.value.id == "result" and x.args and isinstance(x.args[0], ast.Constant):
            out.append((x.args[0].value, x))
    return out


def reads_in(e) -> List[str]:
    out = []
    for x in ast.walk(e):
        k = key_of_subscript(x)
        if k is not None and isinstance(x.ctx, ast.Load):
            out.append(k)
        if isinstance(x, ast.Call) and isinstance(x.func, ast.Attribute) and x.func.attr == "get" and isinstance(x.func.value, ast.Name) and x.func.value.id == "result" and x.args and isinstance(x.args[0], ast.Constant):
            out.append(x.args[0].value)
    return out


def null_test_container(t) -> Optional[str]:
    """`"null" in result["type"]` / `{"type": "null"} in result.get("anyOf", ())` -> key"""
    if isinstance(t, ast.Compare) and isinstance(t.ops[0], ast.In):
        l, r = t.left, t.comparators[0]
        is_null = (isinstance(l, ast.Constant) and l.value == "null") or (isinstance(l, ast.Dict) and "null" in norm(l))
        if is_null:
            ks = reads_in(r)
            return ks[0] if ks else None
    return None


def unroll_constant_loops(fn):
    """`for a, b in (("x", "y"), ...): body` over literal tuples of constants -> the body repeated with the names replaced
    by the constants (so that computed keys `result[a]` become the constant keys the effect analysis reads)."""
    import copy

    class Sub(ast.NodeTransformer):
        def __init__(self, mapping):
            self.mapping = mapping

        def visit_Name(self, n):
            if n.id in self.mapping and isinstance(n.ctx, ast.Load):
                return ast.copy_location(copy.deepcopy(self.mapping[n.id]), n)
            return n

    class Unroll(ast.NodeTransformer):
        def visit_For(self, node):
            self.generic_visit(node)
            it, tg = node.iter, node.target
            if isinstance(it, ast.Tuple) and it.elts and all(isinstance(e, ast.Tuple) for e in it.elts) and isinstance(tg, ast.Tuple) and all(isinstance(t, ast.Name) for t in tg.elts) \
                    and all(len(e.elts) == len(tg.elts) and all(isinstance(x, (ast.Constant, ast.Name)) for x in e.elts) for e in it.elts) and not node.orelse:
                out = []
                for e in it.elts:
                    mapping = {t.id: x for t, x in zip(tg.elts, e.elts)}
                    for st in node.body:
                        out.append(Sub(mapping).visit(copy.deepcopy(st)))
                return out
            return node
    new = Unroll().visit(copy.deepcopy(fn))
    ast.fix_missing_locations(new)
    return new


def analyse_converter(model, fi, unsupported_name="OPEN_API_3_0_UNSUPPORTED") -> Effects:
    eff = Effects()
    fn = unroll_constant_loops(fi.node)
    parents = {c: p for p in ast.walk(fn) for c in ast.iter_child_nodes(p)}

    def enclosing_tests(n):
        tests = []
        p = parents.get(n)
        child = n
        while p is not None and p is not fn:
            if isinstance(p, ast.If) and child in p.body:
                tests.append(p.test)
            child = p
            p = parents.get(p)
        return tests

    def same_key_presence(t, key) -> bool:
        return isinstance(t, ast.Compare) and isinstance(t.ops[0], ast.In) and isinstance(t.left, ast.Constant) and t.left.value == key and norm(t.comparators[0]) == "result"

    def local_flows(st, call, key):
        """value kept in a local and stored under other keys later: `v = result.pop(K)` ... `result[B] = v` / `.setdefault(B, v[0])`"""
        if not (isinstance(st, ast.Assign) and isinstance(st.targets[0], ast.Name) and st.value is call):
            return
        loc = st.targets[0].id
        for later in ast.walk(fn):
            if isinstance(later, ast.Assign) and later.lineno > st.lineno:
                tgs = later.targets[0].elts if isinstance(later.targets[0], ast.Tuple) else later.targets
                vals = later.value.elts if isinstance(later.value, ast.Tuple) and isinstance(later.targets[0], ast.Tuple) else [later.value] * len(tgs)
                for t_, v_ in zip(tgs, vals):
                    kk = key_of_subscript(t_)
                    if kk is not None and any(isinstance(x, ast.Name) and x.id == loc for x in ast.walk(v_)):
                        eff.flows.append((key, kk))
                        eff.added.setdefault(kk, later)
            if isinstance(later, ast.Call) and getattr(later, "lineno", 0) > st.lineno and isinstance(later.func, ast.Attribute) and later.func.attr == "setdefault" and isinstance(later.func.value, ast.Name) and later.func.value.id == "result" \
                    and len(later.args) == 2 and isinstance(later.args[0], ast.Constant) and any(isinstance(x, ast.Name) and x.id == loc for x in ast.walk(later.args[1])):
                eff.flows.append((key, later.args[0].value))
                eff.added.setdefault(later.args[0].value, later)

    for st in walk_no_nested(fn):
        if isinstance(st, ast.Assign) and isinstance(st.value, ast.Call) and isinstance(st.targets[0], ast.Name) and st.targets[0].id == "result":
            q = model.resolve_dotted(fi.module, dotted(st.value.func) or "")
            if q in model.functions:
                eff.calls.append(q)
        if isinstance(st, ast.Expr) and isinstance(st.value, ast.Call):
            q = model.resolve_dotted(fi.module, dotted(st.value.func) or "")
            if q == f"{VMOD}.isolate_ref":
                eff.isolates = True
        # loop over the declared-unsupported list
        if isinstance(st, ast.For) and dotted(st.iter) == unsupported_name:
            for b in ast.walk(st):
                if isinstance(b, ast.Call) and isinstance(b.func, ast.Attribute) and b.func.attr == "pop" and b.args and isinstance(b.args[0], ast.Name) and b.args[0].id == getattr(st.target, "id", None):
                    for k in const_list(model, unsupported_name):
                        eff.removed[k] = b
                        eff.declared_drop.add(k)
        if not isinstance(st, ast.stmt) or isinstance(st, (ast.If, ast.For, ast.While, ast.Try, ast.With, ast.FunctionDef)):
            if isinstance(st, ast.If):
                k = null_test_container(st.test)
                if k and any("nullable" in norm(s) for s in st.body):
                    eff.nullable_guards.append(k)
            continue
        # additions
        added_here = []
        if isinstance(st, (ast.Assign, ast.AugAssign)):
            tg = st.targets if isinstance(st, ast.Assign) else [st.target]
            for t in tg:
                k = key_of_subscript(t)
                if k is not None:
                    added_here.append(k)
        for x in ast.walk(st):
            if isinstance(x, ast.Call) and isinstance(x.func, ast.Attribute) and x.func.attr == "setdefault" and x.args and isinstance(x.args[0], ast.Constant):
                base = x.func.value
                if isinstance(base, ast.Name) and base.id == "result":
                    added_here.append(x.args[0].value)
        for k in added_here:
            eff.added.setdefault(k, st)
        # removals
        for k, call in pops_in(st):
            tests = enclosing_tests(st)
            # reach condition of the removal (else branches, guard clauses and early returns of earlier siblings included): the
            # keyword is removed from every schema that has it only when nothing but its own presence is tested on the way
            reach = path_condition(fn, st, parents)
            reach_conj = [] if (isinstance(reach, ast.Constant) and reach.value is True) else flatten_boolop(reach, ast.And)
            on_all_paths = all(same_key_presence(t, k) for t in reach_conj) and (bool(reach_conj) or len(call.args) >= 2 or not tests)
            # `if K in result and not isinstance(result[K], bool): ... result.pop(K)`: the numeric form of K is removed
            conj_ = [c_ for t in tests for c_ in flatten_boolop(t, ast.And)]
            numeric = [c_ for c_ in conj_ if norm(c_) == f"not isinstance(result['{k}'], bool)"]
            if numeric and all(same_key_presence(c_, k) or c_ in numeric for c_ in conj_):
                eff.removed[f"{k}(number)"] = call
                for a in added_here:
                    eff.flows.append((f"{k}(number)", a))
                local_flows(st, call, f"{k}(number)")
            local_flows(st, call, k)
            flows = [a for a in added_here if a != k or True]
            if on_all_paths:
                eff.removed[k] = call
            if added_here:
                for a in added_here:
                    eff.flows.append((k, a))
            else:
                if isinstance(st, ast.Expr) and on_all_paths:
                    eff.dropped[k] = call
        # plain copies: result["items"] = result["prefixItems"]
        if isinstance(st, ast.Assign):
            for r in reads_in(st.value):
                for a in added_here:
                    if r != a:
                        eff.flows.append((r, a))
        # null removals: comprehension filtering "null" out of a type / anyOf list
        for x in ast.walk(st):
            if isinstance(x, (ast.ListComp, ast.GeneratorExp)):
                for g in x.generators:
                    for cond in g.ifs:
                        t = norm(cond)
                        if "!= 'null'" in t or "!= {'type': 'null'}" in t:
                            src = reads_in(g.iter) + [k for k, _ in pops_in(g.iter)]
                            if src:
                                eff.null_removals.append((st, src[0]))
    return eff


def chain_effects(model, q, seen=None) -> List[Tuple[str, Effects]]:
    seen = seen or set()
    if q in seen:
        return []
    seen.add(q)
    fi = model.func(q)
    eff = analyse_converter(model, fi)
    out = []
    for c in eff.calls:
        if c.startswith(VMOD + ".to_"):
            out += chain_effects(model, c, seen)
    out.append((q, eff))
    return out


def version_constants(model):
    mod = model.mod(VMOD)
    out = {}
    for st in mod.tree.body:
        if isinstance(st, ast.Assign) and isinstance(st.targets[0], ast.Attribute) and dotted(st.targets[0].value) == "JsonSchemaVersion" and isinstance(st.value, ast.Call) and dotted(st.value.func) == "JsonSchemaVersion":
            cls = model.cls(f"{VMOD}.JsonSchemaVersion")
            params = [f for f in cls.field_order if f in cls.annotations and not norm(cls.annotations[f]).startswith("ClassVar")]
            args = {}
            for p, a in zip(params, st.value.args):
                args[p] = a
            for k in st.value.keywords:
                args[k.arg] = k.value
            out[st.targets[0].attr] = (st, args)
    if len(out) < 5:
        raise AnalysisError(f"only {len(out)} JsonSchemaVersion constants found")
    return out


def check(ctx):
    model = ctx.model
    ctx.explanations.append(
        "C18: key-set abstract interpretation of the dialect converters (pop / assignment / setdefault effects on `result`, "
        "following the chain to_json_schema_7 -> to_json_schema_2019_09). Decided per version constant: every emitted "
        "instance-changing keyword is in the target vocabulary, removed, or translated (R1); a removed keyword's value flows "
        "into an added keyword unless listed in OPEN_API_3_0_UNSUPPORTED (R2); `null` is only filtered out of a type / anyOf "
        "under a null-presence test that sets `nullable` (R2n); the conversion is self-referential and passed at both "
        "serialize(JsonSchema) sites (R3); ref prefix = definitions key (R4); $ref isolation where siblings are ignored (R5); "
        "declared $schema URI matches the dialect (R6). Vocabularies are tables in the checker (trusted base). Not decided: "
        "equality of the instance sets."
    )
    ctx.extra["trusted_base"] = ["JSON Schema draft-07 / 2019-09 / 2020-12 and OpenAPI 3.0.3 keyword vocabularies as tabulated in sa/rules/c18.py"]
    emit = emitted_keywords(model)
    consts = version_constants(model)
    ctx.rule("C18.R1", "vocabulary closure per target dialect", floor=5)
    ctx.rule("C18.R2", "removed keywords are translated, not dropped (unless declared unsupported)", floor=5)
    ctx.rule("C18.R2n", "`null` is removed from a type / anyOf only together with `nullable` under a null-presence test", floor=2)
    ctx.rule("C18.R4", "reference prefix agrees with the key definitions are moved to", floor=5)
    ctx.rule("C18.R5", "$ref is isolated for dialects that ignore its siblings", floor=2)
    ctx.rule("C18.R6", "each version declares the $schema URI of its own dialect", floor=3)
    unsupported = set(const_list(model, "OPEN_API_3_0_UNSUPPORTED"))
    analysed_funcs = set()
    for name, (st, args) in sorted(consts.items()):
        dialect = DIALECT_OF.get(name)
        ctx.require(dialect is not None, f"unknown version constant {name}: add its dialect to the checker")
        ser = args.get("serialization")
        conv_q = None
        if ser is not None and not (isinstance(ser, ast.Constant) and ser.value is None):
            conv_q = model.resolve_dotted(model.mod(VMOD), dotted(ser) or "")
            ctx.require(conv_q in model.functions, f"{name}: converter {norm(ser)} not resolved")
        chain = chain_effects(model, conv_q) if conv_q else []
        present = set(emit)
        forms_array_items = False
        isolates = False
        defs_key = "$defs"
        for q, eff in chain:
            analysed_funcs.add(q)
            for k in eff.removed:
                present.discard(k)
            for k in eff.added:
                present.add(k)
            for src, dst in eff.flows:
                if src == "prefixItems" and dst == "items":
                    forms_array_items = True
                if src == "$defs":
                    defs_key = dst
            isolates = isolates or eff.isolates
        if "prefixItems" in emit and dialect == "2020-12":
            pass
        if forms_array_items:
            present.add("items(array form)")
        vocab = VOCAB[dialect]
        outside = sorted(k for k in present & ASSERTING if k not in vocab)
        if not outside:
            ctx.ok("C18.R1", name, f"{len(present & ASSERTING)} asserting keywords may be emitted, all defined by {dialect}", where=f"apischema/json_schema/versions.py:{st.lineno}")
        for k in outside:
            ctx.fail("C18.R1", f"{name}:{k}", f"{name} keeps {k}",
                     f"`{k}` can remain in a schema generated for {name} but {dialect} does not define it: a {dialect} validator ignores it (or rejects the schema), so the converted schema does not accept the same instances",
                     "apischema/json_schema/versions.py", st.lineno)
        # R2
        for q, eff in chain:
            fi = model.func(q)
            for k, call in eff.removed.items():
                flows = [d for s, d in eff.flows if s == k]
                if k in eff.declared_drop:
                    ok = dialect == "oas-3.0" or bool(flows)
                    ctx.check(ok, "C18.R2", f"{name}:{k}", call, f"`{k}` is dropped for {name} through the OpenAPI-3.0 unsupported list", fi, call, detail="declared unsupported by the source (OPEN_API_3_0_UNSUPPORTED)")
                    continue
                ctx.check(bool(flows), "C18.R2", f"{name}:{k}", call,
                          f"`{k}` is removed by {q.split('.')[-1]} but its value does not flow into any keyword of the target: the constraint is silently dropped",
                          fi, call, detail=f"{k} -> {sorted(set(flows))}")
        # R4
        prefix = args.get("ref_prefix")
        defs = args.get("defs")
        pv = prefix.value if isinstance(prefix, ast.Constant) else None
        dv = defs.value if isinstance(defs, ast.Constant) else True
        if dv:
            want = f"#/{defs_key}/"
            ctx.check(pv == want, "C18.R4", name, st, f"{name} moves definitions under `{defs_key}` but references use the prefix `{pv}`: every $ref dangles", None, None, detail=f"prefix {pv}")
            if pv != want:
                ctx.findings[-1].file, ctx.findings[-1].line = "apischema/json_schema/versions.py", st.lineno
        else:
            ctx.ok("C18.R4", name, f"definitions are not inlined (defs=False), external prefix {pv}", nontrivial=False)
        # R5
        if dialect in IGNORES_REF_SIBLINGS:
            ctx.check(isolates, "C18.R5", name, st, f"{dialect} ignores the siblings of $ref but the converter chain of {name} never calls isolate_ref", None, None, detail="isolate_ref called")
            if not isolates:
                ctx.findings[-1].file, ctx.findings[-1].line = "apischema/json_schema/versions.py", st.lineno
        # R6
        uri = args.get("schema")
        if isinstance(uri, ast.Constant) and isinstance(uri.value, str):
            tok = URI_TOKEN.get(dialect)
            ctx.check(tok is not None and tok in uri.value, "C18.R6", name, st, f"{name} declares $schema `{uri.value}`, which is not the {dialect} meta-schema", None, None, detail=uri.value)
            if not (tok is not None and tok in uri.value):
                ctx.findings[-1].file, ctx.findings[-1].line = "apischema/json_schema/versions.py", st.lineno
    # R2n
    for q in sorted(analysed_funcs):
        fi = model.func(q)
        eff = analyse_converter(model, fi)
        for st, key in eff.null_removals:
            ctx.check(key in eff.nullable_guards, "C18.R2n", f"{q.split('.')[-1]}:{key}", st,
                      f"`null` is filtered out of `{key}` but no `if <null in {key}>: ... nullable` precedes it: a nullable union loses null in the converted schema",
                      fi, st, detail=f"guarded by a null-presence test on `{key}` that sets nullable")
    # a bare `type: "null"` has no OpenAPI 3.0 spelling either (3.0 has no null type)
    oa = model.func(f"{VMOD}.to_open_api_3_0")
    handles_bare_null = any(isinstance(c, ast.Compare) and "type" in norm(c.left) and any(isinstance(x, ast.Constant) and x.value == "null" for x in c.comparators) and isinstance(c.ops[0], (ast.Eq, ast.Is)) for c in ast.walk(oa.node))
    ctx.check(handles_bare_null, "C18.R2n", "to_open_api_3_0:type(bare null)", None,
              "`type: \"null\"` (NoneType alone, Literal[None]) is only handled inside a type list / anyOf: the OpenAPI 3.0 output keeps `{type: null}`, a type that dialect does not define",
              oa, oa.node, detail="bare null translated (e.g. nullable + enum [null])")
    # isolate_ref itself
    iso = model.func(f"{VMOD}.isolate_ref")
    t = norm(iso.node)
    ctx.check("'allOf'" in t and "pop('$ref')" in t and "len(schema) > 1" in t, "C18.R5", iso.qualname, iso.node.body[0], "isolate_ref no longer moves $ref under allOf when it has siblings", iso, iso.node, detail="$ref with siblings -> allOf")

    # ---------------- R7: every form in which builders emit a multi-valued `type` enters the type-splitting branch
    ctx.rule("C18.R7", "OpenAPI 3.0 has single-valued `type`: the branch splitting a multi-valued type is entered for every container form the schema builders emit (list, set, tuple) and only skipped for a single str / JsonType", floor=3)
    kinds = {}   # container kind -> producer site

    def kind_of(e, fn_node, depth=0):
        if depth > 4:
            return set()
        if isinstance(e, (ast.Set, ast.SetComp)) or (isinstance(e, ast.Call) and dotted(e.func) in ("set", "frozenset")):
            return {"set"}
        if isinstance(e, (ast.List, ast.ListComp)) or (isinstance(e, ast.Call) and dotted(e.func) in ("list", "sorted")):
            return {"list"}
        if isinstance(e, ast.Tuple) or (isinstance(e, ast.Call) and dotted(e.func) == "tuple"):
            return {"tuple"}
        if isinstance(e, ast.IfExp):
            return kind_of(e.body, fn_node, depth + 1) | kind_of(e.orelse, fn_node, depth + 1)
        if isinstance(e, ast.Name):
            out = set()
            for n in ast.walk(fn_node):
                if isinstance(n, (ast.Assign, ast.AnnAssign)) and n.value is not None and any(isinstance(t_, ast.Name) and t_.id == e.id for t_ in ([n.target] if isinstance(n, ast.AnnAssign) else n.targets)):
                    out |= kind_of(n.value, fn_node, depth + 1)
            return out
        return set()
    for fi in model.funcs_in_module(SMOD):
        for c in walk_no_nested(fi.node):
            if isinstance(c, ast.Call) and (dotted(c.func) or "").split(".")[-1] in ("json_schema", "JsonSchema"):
                for k in c.keywords:
                    if k.arg == "type":
                        for kd in kind_of(k.value, fi.node):
                            kinds.setdefault(kd, f"{fi.qualname}: `{short(c, 50)}`")
    ctx.require(kinds, "no producer of a multi-valued `type` found among the schema builders (literal() / unions)")
    kinds.setdefault("list", "a type list written by the user (schema(extra=...)) or produced by a union of primitive types")
    guards = [n for n in walk_no_nested(oa.node) if isinstance(n, ast.If) and any(isinstance(x, ast.ListComp) and "'null'" in norm(x) and ("type" in norm(x.generators[0].iter)) for b in n.body for x in ast.walk(b)) and "type" in norm(n.test)]
    ctx.require(len(guards) == 1, "to_open_api_3_0: the branch splitting a multi-valued `type` was not recognised")
    g = guards[0]
    tlocals = {norm(n.targets[0]) for n in walk_no_nested(oa.node) if isinstance(n, ast.Assign) and norm(n.value) in ("result.get('type')", "result['type']", "result.get('type', None)")}
    tvals = {"result['type']", "result.get('type')"} | tlocals
    ABC = {"list": {"list", "Sequence", "MutableSequence", "Collection", "Iterable", "Sized", "Container"}, "tuple": {"tuple", "Sequence", "Collection", "Iterable", "Sized", "Container"},
           "set": {"set", "Set", "AbstractSet", "MutableSet", "Collection", "Iterable", "Sized", "Container"}, "str": {"str", "Sequence", "Collection", "Iterable", "Sized", "Container"}, "JsonType": {"JsonType", "str", "Enum", "Sequence", "Collection", "Iterable", "Sized", "Container"}}

    def special18(e, _):
        if isinstance(e, ast.Call) and dotted(e.func) == "isinstance" and len(e.args) == 2 and norm(e.args[0]) in tvals:
            cl = e.args[1].elts if isinstance(e.args[1], ast.Tuple) else [e.args[1]]
            names_ = {(dotted(x) or "?").split(".")[-1] for x in cl}
            return lambda v: bool(names_ & ABC[v["__kind"]])
        if isinstance(e, ast.Compare) and len(e.ops) == 1 and isinstance(e.ops[0], ast.In) and norm(e.left) == "'type'" and norm(e.comparators[0]) == "result":
            return lambda v: True
        if isinstance(e, ast.Compare) and len(e.ops) == 1 and isinstance(e.ops[0], (ast.IsNot, ast.NotEq)) and norm(e.left) in tvals and norm(e.comparators[0]) == "None":
            return lambda v: True
        if isinstance(e, ast.Name) and e.id in tlocals:
            return lambda v: True
        return None
    ev18 = BoolEval({}, special=special18)
    try:
        gfn = ev18.compile(g.test)
        for kd, site in sorted(kinds.items()):
            ctx.check(bool(gfn({"__kind": kd})), "C18.R7", f"to_open_api_3_0:type as {kd}", None,
                      f"`if {short(g.test, 70)}` is false for a `type` held in a {kd} ({site}): the OpenAPI 3.0 output keeps a multi-valued type (not allowed there) and `null` in it is never turned into nullable",
                      oa, g, detail=f"guard true for {kd}")
        for kd in ("str", "JsonType"):
            ctx.check(not gfn({"__kind": kd}), "C18.R7", f"to_open_api_3_0:type as {kd}", None, f"`if {short(g.test, 70)}` is true for a single {kd} type: it would be iterated character by character", oa, g, detail=f"guard false for {kd}")
    except Unknown as err:
        ctx.undecided("C18.R7", f"to_open_api_3_0: guard of the type-splitting branch: {err}")

    # ---------------- R10: `examples` -> `example` only when there is one
    ctx.rule("C18.R10", "OpenAPI 3.0 has a single `example`: the first of `examples` is taken only when the list is not empty (schema(examples=[]) is accepted by the schema() API): an unguarded `[0]` raises IndexError out of the schema generation", floor=1)
    idx10 = [n for n in ast.walk(oa.node) if isinstance(n, ast.Subscript) and isinstance(n.slice, ast.Constant) and n.slice.value == 0 and "examples" in norm(n.value)]
    ctx.require(len(idx10) == 1, "to_open_api_3_0: `examples[0]` not found")
    from ..pathcond import parents_of as _po10, path_condition as _pc10
    st10 = idx10[0]
    pm10 = _po10(oa.node)
    while not isinstance(st10, ast.stmt):
        st10 = pm10[st10]
    cond10 = norm(_pc10(oa.node, st10, pm10))
    base10 = norm(idx10[0].value)
    guarded = any(g in cond10 for g in (f"and {base10}", f"({base10})", f"len({base10})", f"({base10} := ")) or cond10.endswith(base10) or cond10 == base10
    ctx.check(guarded, "C18.R10", "to_open_api_3_0:examples", None, f"`{short(idx10[0], 40)}` is evaluated under `{cond10}` only: with `schema(examples=[])` the key is present and the list empty - IndexError out of deserialization_schema(..., version=OPEN_API_3_0)", oa, st10, detail="first example taken only from a non-empty list")

    # ---------------- R9: enumerated values are kept
    ctx.rule("C18.R9", "a converter never removes a value from `enum` (or changes `const`): in OpenAPI 3.0 `nullable: true` only widens `type`, the enumeration still decides - a null taken out of `enum` is rejected by the converted schema and accepted by the 2020-12 one", floor=3)
    n9 = 0
    for fi in model.funcs_in_module(VMOD):
        if not fi.name.startswith("to_"):
            continue
        n9 += 1
        fn9 = unroll_constant_loops(fi.node)
        bad9 = None
        for st in ast.walk(fn9):
            if isinstance(st, ast.Assign) and any(key_of_subscript(t) == "enum" for t in st.targets):
                v = st.value
                filtered = any(isinstance(x, (ast.ListComp, ast.GeneratorExp, ast.SetComp)) and any(g.ifs for g in x.generators) for x in ast.walk(v)) or \
                    any(isinstance(x, ast.Call) and dotted(x.func) == "filter" for x in ast.walk(v))
                if filtered and "enum" in {k for k in reads_in(v)} | {k for k, _ in pops_in(v)}:
                    bad9 = st
            if isinstance(st, ast.Call) and isinstance(st.func, ast.Attribute) and st.func.attr in ("remove", "discard", "pop") and isinstance(st.func.value, ast.Subscript) and key_of_subscript(st.func.value) == "enum":
                bad9 = st
        ctx.check(bad9 is None, "C18.R9", f"{fi.qualname}:enum", None,
                  f"`{short(bad9, 70) if bad9 is not None else ''}` filters the enumerated values: for Literal['low', 'high', None] the OpenAPI 3.0 schema becomes {{type: string, enum: [low, high], nullable: true}}, which rejects null (nullable does not add to enum), while the 2020-12 schema accepts it",
                  fi, bad9 if bad9 is not None else fi.node, detail="enum rebuilt only from const / kept as it is")
    ctx.require(n9 >= 3, f"dialect converters found: {n9}")

    # ---------------- R8: the converters work on a shallow copy
    ctx.rule("C18.R8", "a converter only rebinds keys of its shallow copy: the values (lists, dicts) are shared with the schema it was given - ultimately the user's schema(extra=...) - and are never modified in place (append / extend / update on `result[...]`): otherwise every generation changes the next one", floor=4)
    n8 = 0
    for fi in model.funcs_in_module(VMOD):
        if not (fi.name.startswith("to_") or fi.name == "isolate_ref"):
            continue
        n8 += 1
        copies = {"result", "schema"} | set(fi.params)
        for c in walk_no_nested(fi.node):
            if not (isinstance(c, ast.Call) and isinstance(c.func, ast.Attribute) and c.func.attr in ("append", "extend", "insert", "update", "remove", "clear", "sort", "reverse", "add")):
                continue
            recv = c.func.value
            nested_value = (isinstance(recv, ast.Subscript) and isinstance(recv.value, ast.Name) and recv.value.id in copies) or \
                (isinstance(recv, ast.Call) and isinstance(recv.func, ast.Attribute) and recv.func.attr in ("get", "setdefault") and isinstance(recv.func.value, ast.Name) and recv.func.value.id in copies)
            if nested_value:
                ctx.fail("C18.R8", f"{fi.qualname}:{short(c, 40)}", None,
                         f"`{short(c, 70)}` modifies in place a value held by the shallow copy: when the key comes from schema(extra={{...}}) the user's own list grows at every schema generation (a `$ref` appended per call, then emitted as a dangling `#/definitions/...` in the other dialects)",
                         fi.module.relpath, c.lineno)
        ctx.ok("C18.R8", f"{fi.qualname}", "no in-place operation on a value of the copied node", True, f"{fi.module.relpath}:{fi.node.lineno}")
    ctx.require(n8 >= 4, f"dialect converters found: {n8}")

    # ---------------- R3
    ctx.rule("C18.R3", "the dialect conversion is applied at every nesting level", floor=4)
    jv = model.cls(f"{VMOD}.JsonSchemaVersion")
    conv = jv.methods.get("conversion")
    ctx.require(conv is not None, "JsonSchemaVersion.conversion vanished")
    t = norm(conv.node)
    # the lazy sub-conversion returns a variable that ends up holding the Conversion itself (directly, or through a second name)
    lam_names = {l_.body.id for c_ in ast.walk(conv.node) if isinstance(c_, ast.Call) and (dotted(c_.func) or "").endswith("LazyConversion") and c_.args
                 for l_ in [c_.args[0]] if isinstance(l_, ast.Lambda) and isinstance(l_.body, ast.Name)}
    conv_names = {norm(a_.targets[0]) for a_ in ast.walk(conv.node) if isinstance(a_, ast.Assign) and isinstance(a_.value, ast.Call) and (dotted(a_.value.func) or "") == "Conversion"
                  and a_.value.args and norm(a_.value.args[0]) == "self.serialization" and any(k_.arg == "sub_conversion" for k_ in a_.value.keywords)}
    alias_names = {norm(a_.targets[0]) for a_ in ast.walk(conv.node) if isinstance(a_, ast.Assign) and isinstance(a_.value, ast.Name) and a_.value.id in conv_names}
    selfref = bool(lam_names) and lam_names <= (conv_names | alias_names) and "Conversion(self.serialization" in t
    ctx.check(selfref, "C18.R3", conv.qualname, conv.node.body[0], "the version conversion is no longer self-referential: nested schemas would not be converted", conv, conv.node, detail="Conversion(self.serialization, sub_conversion=<lazy self>)")
    for site in (f"{SMOD}._schema", f"{SMOD}.definitions_schema"):
        fi = model.func(site)
        hit = False
        for c in model.calls_in(fi, include_nested=True):
            if dotted(c.func) == "serialize" and c.args and norm(c.args[0]) == "JsonSchema":
                kw = {k.arg: norm(k.value) for k in c.keywords}
                hit = kw.get("conversion") == "version.conversion"
        ctx.check(hit, "C18.R3", site, fi.node.body[-1], "the schema is serialized without conversion=version.conversion: the requested dialect is not applied", fi, fi.node, detail="serialize(JsonSchema, ..., conversion=version.conversion)")
    # nodes rebuilt by a converter stay JsonSchema instances: the recursive conversion only re-visits those
    n_nodes = 0
    for fi in model.funcs_in_module(VMOD):
        if not (fi.name.startswith("to_") or fi.name == "isolate_ref"):
            continue
        parents_ = {c_: p_ for p_ in ast.walk(fi.node) for c_ in ast.iter_child_nodes(p_)}
        for d in ast.walk(fi.node):
            if isinstance(d, ast.Dict) and any(k is None for k in d.keys) and any(isinstance(k, ast.Constant) for k in d.keys if k is not None):
                n_nodes += 1
                p_ = parents_.get(d)
                wrapped = isinstance(p_, ast.Call) and (dotted(p_.func) or "").endswith("JsonSchema")
                ctx.check(wrapped, "C18.R3", f"{fi.qualname}:node", d, f"`{short(d, 60)}` copies a schema node into a plain dict: the dialect conversion is applied recursively to JsonSchema instances only, so this node (and the 2020-12 keywords it carries: const, prefixItems, type lists) is emitted unconverted", fi, d, detail="JsonSchema({**node, ...})")
    cmp_ = model.func(f"{SMOD}.compare_schemas")
    parents_ = {c_: p_ for p_ in ast.walk(cmp_.node) for c_ in ast.iter_child_nodes(p_)}
    for d in ast.walk(cmp_.node):
        if isinstance(d, ast.Dict) and any(k is None for k in d.keys) and any(isinstance(k, ast.Constant) for k in d.keys if k is not None):
            n_nodes += 1
            p_ = parents_.get(d)
            ctx.check(isinstance(p_, ast.Call) and (dotted(p_.func) or "").endswith("JsonSchema"), "C18.R3", f"{cmp_.qualname}:node", d, f"`{short(d, 60)}`: a property schema merged for definitions_schema is rebuilt as a plain dict and escapes the dialect conversion", cmp_, d, detail="JsonSchema({**node, ...})")
    rets = [r for r in ast.walk(cmp_.node) if isinstance(r, ast.Return) and "merged" in norm(r.value)]
    ctx.check(bool(rets) and all("JsonSchema(merged)" in norm(r.value) for r in rets), "C18.R3", f"{cmp_.qualname}:merged", rets[0] if rets else cmp_.node.body[0],
              "the definition merged from both directions is returned as a plain dict: definitions_schema(..., version=OPEN_API_3_0 / DRAFT_7) then returns 2020-12 keywords for every type used in both directions", cmp_, cmp_.node, detail="JsonSchema(merged)")
    ctx.ok("C18.R3", f"{VMOD}:rebuilt-nodes", f"{n_nodes} schema node(s) rebuilt by the converters, all as JsonSchema")
    tm = model.mod(TMOD)
    reg = any(isinstance(s, ast.Expr) and isinstance(s.value, ast.Call) and dotted(s.value.func) == "serializer" and "source=JsonSchema" in norm(s.value) for s in tm.tree.body)
    ctx.check(reg, "C18.R3", f"{TMOD}:serializer(JsonSchema)", None, "JsonSchema has no registered dict serializer: nested schema objects would not be re-visited", None, None, detail="serializer(Conversion(dict, source=JsonSchema))")
    # $defs only added when the version inlines definitions
    sch = model.func(f"{SMOD}._schema")
    ok = any(isinstance(n, ast.If) and "version.defs" in norm(n.test) and any("'$defs'" in norm(s) for s in ast.walk(n) if isinstance(s, ast.Subscript)) for n in walk_no_nested(sch.node))
    ctx.check(ok, "C18.R4", f"{SMOD}._schema:$defs", sch.node.body[0], "$defs is added without consulting version.defs", sch, sch.node, detail="if add_defs and version.defs")


def mutants(mb):
    V = "apischema/json_schema/versions.py"
    mb.add_text("null-taken-out-of-enum", V, '    if "examples" in result:\n', '    if result.get("nullable") and "enum" in result:\n        result["enum"] = [v for v in result["enum"] if v is not None]\n    if "examples" in result:\n', "C18.R9", "enum")
    mb.add_text("exclusive-bounds-kept-numeric", V, '        ("maximum", "exclusiveMaximum", min),\n', '', "C18.R1", "exclusiveMaximum(number)")
    mb.add_text("exclusive-bounds-dropped", V, "                result[bound], result[exclusive] = value, True\n", "                pass\n", "C18.R2", "exclusiveM")
    mb.add_text("isolate-ref-in-place", V, '        schema["allOf"] = [*schema.get("allOf", ()), {"$ref": schema.pop("$ref")}]\n', '        schema.setdefault("allOf", []).append({"$ref": schema.pop("$ref")})\n', "C18.R8", "isolate_ref")
    mb.add_text("anyof-extended-in-place", V, '                result["anyOf"] = any_of\n', '                result.setdefault("anyOf", []).extend(any_of)\n', "C18.R8", "to_open_api_3_0")
    mb.add_text("type-guard-sequence", V, '    if "type" in result and not isinstance(result["type"], (str, JsonType)):\n', '    if isinstance(result.get("type"), Sequence) and not isinstance(result.get("type"), str):\n', "C18.R7", "type as set")
    mb.add_text("type-guard-list-only", V, '    if "type" in result and not isinstance(result["type"], (str, JsonType)):\n', '    if isinstance(result.get("type"), list):\n', "C18.R7", "type as set")
    mb.add_text("neg-type-guard-collections", V, '    if "type" in result and not isinstance(result["type"], (str, JsonType)):\n', '    if isinstance(result.get("type"), (list, tuple, set, frozenset)):\n', negative=True)
    S = "apischema/json_schema/schema.py"
    mb.add_text("prefixitems-kept", V, '        result["items"] = result.pop("prefixItems")\n', '        result["items"] = result["prefixItems"]\n', "C18.R1", "prefixItems")
    mb.add_text("defs-not-renamed", V, '    if "$defs" in result:\n        result["definitions"] = {**result.pop("$defs"), **result.get("definitions", {})}\n', "", "C18.R", "DRAFT_7")
    mb.add_text("dependent-required-dropped", V, '        result["dependencies"] = {\n            **result.pop("dependentRequired"),\n            **result.get("dependencies", {}),\n        }\n', '        result.pop("dependentRequired")\n', "C18.R2", "dependentRequired")
    mb.add_text("dependent-required-kept", V, '    if "dependentRequired" in result:\n        result["dependencies"] = {\n            **result.pop("dependentRequired"),\n            **result.get("dependencies", {}),\n        }\n', "", "C18.R1", "DRAFT_7:dependentRequired")
    mb.add_text("const-kept", V, '    if "const" in result:\n        result.setdefault("enum", [result.pop("const")])\n', "", "C18.R1", "OPEN_API_3_0:const")
    mb.add_text("const-dropped", V, '        result.setdefault("enum", [result.pop("const")])\n', '        result.pop("const")\n', "C18.R2", "const")
    mb.add_text("prefix-wrong", V, '    "http://json-schema.org/draft-07/schema#",\n    "#/definitions/",', '    "http://json-schema.org/draft-07/schema#",\n    "#/$defs/",', "C18.R4", "DRAFT_7")
    mb.add_text("no-isolate-ref-7", V, "    result = to_json_schema_2019_09(schema)\n    isolate_ref(result)\n    if \"$defs\" in result:", "    result = to_json_schema_2019_09(schema)\n    if \"$defs\" in result:", "C18.R5", "DRAFT_7")
    mb.add_text("uri-2019-wrong", V, '"http://json-schema.org/draft/2019-09/schema#"', '"http://json-schema.org/draft/2020-12/schema#"', "C18.R6", "DRAFT_2019_09", count=1)
    mb.add_text("nullable-lost", V, '        if "null" in result["type"]:\n            result.setdefault("nullable", True)\n        result["type"] = [t for t in result["type"] if t != "null"]\n',
                '        result["type"] = [t for t in result["type"] if t != "null"]\n', "C18.R2n", "type")
    mb.add_text("anyof-null-lost", V, '        result.setdefault("nullable", True)\n        result["anyOf"] = [a for a in result["anyOf"] if a != {"type": "null"}]', '        result["anyOf"] = [a for a in result["anyOf"] if a != {"type": "null"}]', "C18.R2n", "anyOf")
    mb.add_text("not-self-referential", V, "sub_conversion=LazyConversion(lambda: tmp)", "sub_conversion=None", "C18.R3", "conversion")
    mb.add_text("schema-no-conversion", S, "        check_type=True,\n        conversion=version.conversion,\n        default_conversion=converters.default_serialization,\n        fall_back_on_any=True,\n", "        check_type=True,\n        default_conversion=converters.default_serialization,\n        fall_back_on_any=True,\n", "C18.R3", "_schema")
    mb.add_text("unsupported-list-shrunk", V, 'OPEN_API_3_0_UNSUPPORTED = [\n    "dependentRequired",\n    "unevaluatedProperties",\n    "additionalItems",\n]', 'OPEN_API_3_0_UNSUPPORTED = [\n    "dependentRequired",\n    "unevaluatedProperties",\n]', "C18.R1", "OPEN_API_3_0:additionalItems")
    mb.add_text("nullable-on-plain-copy", V, '        result.setdefault("nullable", True)\n        result["anyOf"] = [a for a in result["anyOf"] if a != {"type": "null"}]', '        any_of = [a for a in result["anyOf"] if a != {"type": "null"}]\n        if len(any_of) == 1 and "type" in any_of[0]:\n            any_of = [{**any_of[0], "nullable": True}]\n        else:\n            result.setdefault("nullable", True)\n        result["anyOf"] = any_of', "C18.R3", "node")
    mb.add_text("merged-definition-plain-dict", S, "        return JsonSchema(merged) if isinstance(write, JsonSchema) else merged\n", "        return merged\n", "C18.R3", "merged")
    mb.add_text("neg-reordered-blocks", V, '    if "examples" in result:\n        examples = result.pop("examples")\n        if examples:  # an empty list has no first example\n            result.setdefault("example", examples[0])\n    if "const" in result:\n        result.setdefault("enum", [result.pop("const")])\n', '    if "const" in result:\n        result.setdefault("enum", [result.pop("const")])\n    if "examples" in result:\n        examples = result.pop("examples")\n        if examples:  # an empty list has no first example\n            result.setdefault("example", examples[0])\n', negative=True)
    mb.add_text("empty-examples-indexed", V, '        examples = result.pop("examples")\n        if examples:  # an empty list has no first example\n            result.setdefault("example", examples[0])\n', '        result.setdefault("example", result.pop("examples")[0])\n', "C18.R10", "examples")
