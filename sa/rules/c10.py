"""C10 - validators run when their inputs are valid; errors merged; termination.

Decides: termination of the self-recursive functions on the validation / error
path (structurally smaller argument), construction only after the error check,
merge-never-replace, every runnable validator executes, discarded fields only
accumulate. Not the run/skip iff nor the AST dependency finder.
"""
import ast
from typing import Dict, List, Optional, Set

from ..boolx import show, valuations
from ..cfg import CFG, describe_path
from ..model import AnalysisError, FuncInfo
from ..nodes import DESER_MOD, is_ve
from ..util import dotted, names_in, norm, short, walk_no_nested
from . import c02

VALIDATORS_MOD = "apischema.validation.validators"

VALIDATE = "apischema.validation.validators.validate"
NODE_BASES = (
    "apischema.deserialization.methods.DeserializationMethod",
    "apischema.deserialization.methods.Constraint",
    "apischema.deserialization.methods.Constructor",
)
SCOPE_MODS = (
    "apischema.validation.validators",
    "apischema.validation.errors",
    "apischema.validation.dependencies",
    "apischema.validation.mock",
    DESER_MOD,
)


# --------------------------------------------------------------------------- R1
class Smaller:
    """Is an expression structurally smaller than (a part of) a parameter?"""

    def __init__(self, fi: FuncInfo):
        self.fi = fi
        self.fn = fi.node
        self.params = set(fi.params) - {"cls"}  # `self` is what methods recurse on
        self.parent = {}
        for p in ast.walk(self.fn):
            for c in ast.iter_child_nodes(p):
                self.parent[c] = p
        # single-assignment locals
        self.assign: Dict[str, List[ast.AST]] = {}
        for n in walk_no_nested(self.fn):
            if isinstance(n, ast.Assign) and len(n.targets) == 1 and isinstance(n.targets[0], ast.Name):
                self.assign.setdefault(n.targets[0].id, []).append(n.value)
        # loop-bound names: name -> (iter expr, position in target, loop node)
        self.loopvar: Dict[str, tuple] = {}
        for n in ast.walk(self.fn):
            gens = []
            if isinstance(n, (ast.For, ast.AsyncFor)):
                gens.append((n.target, n.iter, n))
            elif isinstance(n, (ast.ListComp, ast.SetComp, ast.GeneratorExp, ast.DictComp)):
                for g in n.generators:
                    gens.append((g.target, g.iter, n))
            for tgt, it, owner in gens:
                names = [tgt] if isinstance(tgt, ast.Name) else list(getattr(tgt, "elts", []))
                for i, t in enumerate(names):
                    if isinstance(t, ast.Name):
                        self.loopvar[t.id] = (it, i, owner, len(names))

    def derived_from_param(self, e, depth=0) -> bool:
        """e denotes a parameter or something reached from it (not nec. smaller)"""
        if depth > 6:
            return False
        if isinstance(e, ast.Name):
            if e.id in self.params:
                return True
            if e.id in self.loopvar:
                return self.derived_from_param(self.loopvar[e.id][0], depth + 1)
            vals = self.assign.get(e.id, [])
            return bool(vals) and all(self.derived_from_param(v, depth + 1) for v in vals)
        if isinstance(e, (ast.Attribute, ast.Subscript, ast.Starred)):
            return self.derived_from_param(e.value, depth + 1)
        if isinstance(e, ast.Call):
            if isinstance(e.func, ast.Attribute) and e.func.attr in ("get", "items", "values", "keys", "copy"):
                return self.derived_from_param(e.func.value, depth + 1)
            if isinstance(e.func, ast.Name) and e.func.id in ("enumerate", "list", "tuple", "sorted", "reversed", "iter") and e.args:
                return self.derived_from_param(e.args[0], depth + 1)
        return False

    def index_lower_bound(self, sl, seq) -> Optional[int]:
        """lower bound of a slice start relative to the current loop element of `seq`."""
        if sl is None:
            return 0
        if isinstance(sl, ast.Constant) and isinstance(sl.value, int):
            return sl.value if not self._inside_enumerate_of(seq) else None
        if isinstance(sl, ast.Name) and self._is_enum_index(sl.id, seq):
            return 0
        if isinstance(sl, ast.BinOp) and isinstance(sl.op, ast.Add):
            for a, b in ((sl.left, sl.right), (sl.right, sl.left)):
                if isinstance(a, ast.Name) and self._is_enum_index(a.id, seq) and isinstance(b, ast.Constant) and isinstance(b.value, int):
                    return b.value
        return None

    def _is_enum_index(self, name, seq) -> bool:
        lv = self.loopvar.get(name)
        if not lv:
            return False
        it, pos, _, n = lv
        return pos == 0 and n == 2 and isinstance(it, ast.Call) and dotted(it.func) == "enumerate" and it.args and norm(it.args[0]) == norm(seq)

    def _inside_enumerate_of(self, seq) -> bool:
        return any(self._is_enum_index(nm, seq) for nm in self.loopvar)

    def smaller(self, e, depth=0) -> bool:
        if depth > 6:
            return False
        if isinstance(e, ast.Name):
            if e.id in self.loopvar:
                it, pos, _, n = self.loopvar[e.id]
                # element of (part of) a parameter
                return self.derived_from_param(it)
            vals = self.assign.get(e.id, [])
            return bool(vals) and all(self.smaller(v, depth + 1) for v in vals)
        if isinstance(e, ast.Subscript):
            if isinstance(e.slice, ast.Slice):
                if not self.derived_from_param(e.value):
                    return False
                lb = self.index_lower_bound(e.slice.lower, e.value)
                return lb is not None and lb >= 1
            return self.derived_from_param(e.value)
        if isinstance(e, ast.Attribute):
            return self.derived_from_param(e.value)
        if isinstance(e, ast.Call):
            if isinstance(e.func, ast.Attribute) and e.func.attr in ("get", "pop") and self.derived_from_param(e.func.value):
                return True
            if isinstance(e.func, ast.Name) and e.func.id in ("list", "tuple", "iter") and e.args:
                return self.smaller(e.args[0], depth + 1)
        if isinstance(e, (ast.GeneratorExp, ast.ListComp)):
            g = e.generators[0]
            return self.smaller(g.iter, depth + 1) and isinstance(e.elt, ast.Name) and isinstance(g.target, ast.Name) and e.elt.id == g.target.id
        return False

    def visited_guard(self, call: ast.Call) -> bool:
        """recursive call passes `{*guard, m}` for a parameter `guard`, under an
        `if m in guard: continue / return` test."""
        for a in list(call.args) + [k.value for k in call.keywords]:
            if isinstance(a, ast.Set):
                starred = [x.value for x in a.elts if isinstance(x, ast.Starred)]
                others = [x for x in a.elts if not isinstance(x, ast.Starred)]
                for g in starred:
                    if isinstance(g, ast.Name) and g.id in self.params and others:
                        m = norm(others[0])
                        for n in walk_no_nested(self.fn):
                            if isinstance(n, ast.If) and isinstance(n.test, ast.Compare) and isinstance(n.test.ops[0], ast.In) and norm(n.test.left) == m and norm(n.test.comparators[0]) == g.id:
                                if any(isinstance(s, (ast.Continue, ast.Return, ast.Raise)) for s in n.body):
                                    return True
        return False


def self_recursive(model) -> List[tuple]:
    out = []
    for modname in SCOPE_MODS:
        for fi in model.funcs_in_module(modname):
            sites = []
            deferred = {id(x) for lam in ast.walk(fi.node) if isinstance(lam, ast.Lambda) for x in ast.walk(lam)}
            for c in model.calls_in(fi, include_nested=False):
                if id(c) in deferred:
                    continue  # runs when the returned closure is called, not in this activation
                kind, targets = model.resolve_call(fi, c)
                if fi.qualname in targets and kind in ("func", "method"):
                    sites.append(("call", c))
                elif (
                    isinstance(c.func, ast.Attribute) and c.func.attr == fi.name and fi.cls is not None
                    and not (isinstance(c.func.value, ast.Name) and c.func.value.id in ("self", "super"))
                    and not isinstance(c.func.value, ast.Call)
                    # traversal of the compiled method tree (child node objects) is not
                    # recursion of a function on its own argument
                    and not any(model.is_subclass(fi.cls.qualname, b) for b in NODE_BASES if b in model.classes)
                ):
                    # x.method() inside method of the same name on another object (child recursion)
                    sites.append(("call", c))
                # function passed to map()
                if isinstance(c.func, ast.Name) and c.func.id == "map" and c.args and isinstance(c.args[0], ast.Name) and model.resolve_name(fi.module, c.args[0].id) == fi.qualname:
                    sites.append(("map", c))
            # generator / comprehension nested calls are reached by calls_in (walk enters them)
            if sites:
                out.append((fi, sites))
    return out


def check(ctx):
    model = ctx.model
    ctx.explanations.append(
        "C10: decided - every self-recursive function on the validation / error path passes a structurally smaller argument "
        "(or a growing visited set) at each recursive call (R1); objects are constructed only when no error is pending (R2); "
        "validation errors are merged into the raised error, never replaced (R3); the validator loop has no early exit "
        "outside the discard continuation (R4); the set of discarded fields never shrinks while validators remain to run (R5). "
        "Not decided: the run/skip iff of the gating rule, dependency discovery, ValidatorMock fidelity."
    )
    # ---------------- R1
    ctx.rule("C10.R1", "each recursive call of a self-recursive function passes a structurally smaller argument or a growing visited set", floor=7)
    rec = self_recursive(model)
    for fi, sites in rec:
        sm = Smaller(fi)
        for kind, c in sites:
            construct = f"{fi.qualname}:{short(c, 70)}"
            if kind == "map":
                ok = len(c.args) >= 2 and sm.derived_from_param(c.args[1])
                ctx.check(ok, "C10.R1", construct, c, "function mapped over something that is not a part of its own parameter", fi, c, detail="mapped over the elements of a parameter")
                continue
            args = list(c.args) + [k.value for k in c.keywords]
            recv_child = isinstance(c.func, ast.Attribute) and not (isinstance(c.func.value, ast.Name) and c.func.value.id == "self") and sm.smaller(c.func.value)
            small = [a for a in args if sm.smaller(a)]
            ok = bool(small) or recv_child or sm.visited_guard(c)
            why = ""
            if not ok:
                # explain the closest miss
                for a in args:
                    x = a
                    if isinstance(a, ast.Name) and a.id in sm.assign:
                        x = sm.assign[a.id][-1]
                    for s in ast.walk(x):
                        if isinstance(s, ast.Subscript) and isinstance(s.slice, ast.Slice) and sm.derived_from_param(s.value):
                            why = f" (`{norm(s)}` starts at the current element: the failing element itself is passed again unless the filter happens to exclude it)"
            ctx.check(ok, "C10.R1", construct, c,
                      f"recursive call of {fi.name} passes no structurally smaller argument{why}: recursion may not terminate",
                      fi, c, detail=f"smaller: {[short(a, 40) for a in small] or 'receiver/visited-set'}")

    # ---------------- R2: construct only when clean
    ctx.rule("C10.R2", "construct() is reached only when no error accumulator is pending", floor=4)
    for q, accs in ((f"{DESER_MOD}.ObjectMethod.deserialize", {"errors", "field_errors"}), (f"{DESER_MOD}.SimpleObjectMethod.deserialize", {"field_errors"})):
        fi = model.func(q)
        present = {n.id for n in ast.walk(fi.node) if isinstance(n, ast.Name)}
        ctx.require(accs <= present, f"accumulators {accs} not found in {q}")
        constructs = [n for n in walk_no_nested(fi.node) if isinstance(n, ast.Call) and isinstance(n.func, ast.Attribute) and n.func.attr == "construct"]
        ctx.require(constructs, f"no construct() call in {q}")
        c02.pending_rule(ctx, "C10.R2", fi, accs)

    # ---------------- R3 / R4 / R5 on validate()
    v = model.func(VALIDATE)
    fn = v.node
    ctx.rule("C10.R3", "validation errors are merged into the error that is raised, never replaced", floor=3)
    raised = {n.exc.id for n in walk_no_nested(fn) if isinstance(n, ast.Raise) and isinstance(n.exc, ast.Name)}
    ctx.require(raised, "validate() raises no accumulated error variable")
    for var in sorted(raised):
        for n in walk_no_nested(fn):
            tgt = None
            if isinstance(n, ast.Assign) and len(n.targets) == 1 and isinstance(n.targets[0], ast.Name):
                tgt, val = n.targets[0].id, n.value
            elif isinstance(n, ast.AnnAssign) and isinstance(n.target, ast.Name) and n.value is not None:
                tgt, val = n.target.id, n.value
            if tgt != var:
                continue
            init = isinstance(val, ast.Constant) and val.value is None
            merged = isinstance(val, ast.Call) and (dotted(val.func) or "").endswith("merge_errors") and val.args and isinstance(val.args[0], ast.Name) and val.args[0].id == var
            ctx.check(init or merged, "C10.R3", f"{v.qualname}:{var}", n,
                      f"`{short(n, 80)}` replaces the accumulated error instead of merging into it: earlier validators' errors are lost",
                      v, n, detail="init None / merge_errors(error, ...)")
    for n in walk_no_nested(fn):
        if isinstance(n, ast.Raise) and isinstance(n.exc, ast.Call) and (dotted(n.exc.func) or "").endswith("merge_errors"):
            ok = n.exc.args and isinstance(n.exc.args[0], ast.Name) and n.exc.args[0].id in raised
            ctx.check(bool(ok), "C10.R3", f"{v.qualname}:raise", n, "raised merge does not include the accumulated error", v, n)
    # ObjectMethod: structural errors merged with validator errors
    om = model.func(f"{DESER_MOD}.ObjectMethod.deserialize")
    merged_sites = [n for n in walk_no_nested(om.node) if isinstance(n, ast.Assign) and isinstance(n.value, ast.Call) and (dotted(n.value.func) or "").endswith("merge_errors")]
    ok = any(isinstance(n.targets[0], ast.Name) and isinstance(n.value.args[0], ast.Name) and n.targets[0].id == n.value.args[0].id for n in merged_sites)
    ctx.check(ok, "C10.R3", f"{om.qualname}:merge", om.node.body[-1], "ObjectMethod does not merge validator errors into the structural error", om, om.node, detail="error = merge_errors(error, err)")

    ctx.rule("C10.R4", "the validator loop has no break / return / raise outside the discard continuation and the NonTrivialDependency re-raise", floor=1)
    loops = [n for n in walk_no_nested(fn) if isinstance(n, ast.For) and "validators" in norm(n.iter)]
    ctx.require(len(loops) == 1, f"validator loop not found in validate() ({len(loops)} candidates)")
    loop = loops[0]
    parents = {}
    for p in ast.walk(loop):
        for c in ast.iter_child_nodes(p):
            parents[c] = p
    early = []
    for n in ast.walk(loop):
        if isinstance(n, (ast.Break, ast.Return)) or (isinstance(n, ast.Raise)):
            p, under_discard, in_handler = parents.get(n), False, False
            while p is not None and p is not loop:
                if isinstance(p, ast.If) and "discard" in norm(p.test):
                    under_discard = True
                if isinstance(p, ast.ExceptHandler) and not is_ve(model, v, p.type):
                    in_handler = True
                p = parents.get(p)
            if isinstance(n, ast.Raise) and n.exc is None and in_handler:
                continue
            if not under_discard:
                early.append(n)
    ctx.check(not early, "C10.R4", v.qualname, early[0] if early else loop,
              "early exit from the validator loop: validators after a failing one would not run even though their fields are valid",
              v, early[0] if early else loop, detail="only exits: discard continuation, NonTrivialDependency re-raise")

    ctx.rule("C10.R5", "the set of discarded fields never shrinks while validators remain to run", floor=1)
    # skip-set variables: S in `<x>.dependencies.isdisjoint(S)` (either operand order)
    skipsets = set()
    for n in ast.walk(fn):
        if isinstance(n, ast.Call) and isinstance(n.func, ast.Attribute) and n.func.attr == "isdisjoint" and n.args:
            a, b = n.func.value, n.args[0]
            for x, y in ((a, b), (b, a)):
                if isinstance(x, ast.Attribute) and x.attr == "dependencies" and isinstance(y, ast.Name):
                    skipsets.add(y.id)
    ctx.require(skipsets, "no dependency/discard disjointness test found in validate()")
    cfg = CFG(fn, exc_edges=True)
    loop_node = cfg.stmt_node.get(loop)
    for s in sorted(skipsets):
        for n in walk_no_nested(fn):
            tgt = None
            if isinstance(n, ast.Assign) and len(n.targets) == 1 and isinstance(n.targets[0], ast.Name) and n.targets[0].id == s:
                val = n.value
            elif isinstance(n, ast.AnnAssign) and isinstance(n.target, ast.Name) and n.target.id == s and n.value is not None:
                val = n.value
            else:
                continue
            monotone = s in names_in(val)
            node = cfg.stmt_node.get(n)
            in_loop = any(x is n for x in ast.walk(loop))
            back = False
            if in_loop and node is not None and loop_node is not None:
                back = loop_node in cfg.reachable(node, labels_excluded=set())
            ok = monotone or not in_loop or not back
            ctx.check(ok, "C10.R5", f"{v.qualname}:{s}", n,
                      f"`{short(n, 80)}` replaces the set of discarded fields while the loop goes on: fields discarded by an earlier failing validator are forgotten and validators depending on them run",
                      v, n, detail="assignment followed only by the terminating continuation (raise on all paths)" if not monotone else "monotone update")
            if ok and in_loop and not monotone:
                # shape A: the continuation must be computed from the list being iterated
                conts = [c for c in ast.walk(loop) if isinstance(c, ast.Call) and model.resolve_call(v, c)[1] == [v.qualname]]
                sm = Smaller(v)
                for c in conts:
                    src_ok = any(sm.smaller(a) for a in list(c.args) + [k.value for k in c.keywords])
                    ctx.check(src_ok, "C10.R5", f"{v.qualname}:continuation", c,
                              "the continuation after a discard is not derived from the remaining part of the current validator list", v, c,
                              detail="continuation = filtered tail of the current list (inherits earlier filters)")

    # ---------------- R6: each validator of the list is invoked once, with the right arguments
    ctx.rule("C10.R6", "validate(): every path of an iteration invokes validator.validate(obj, ...) once with the documented arguments; errors are located under the aliased field; the discard continuation forwards obj, kwargs and aliaser", floor=6)
    tries = [t for t in walk_no_nested(loop) if isinstance(t, ast.Try) and any(isinstance(c, ast.Call) and norm(c.func) == "validator.validate" for st in t.body for c in ast.walk(st))]
    ctx.require(len(tries) == 1, f"validate(): {len(tries)} try statements invoke validator.validate in the loop (expected 1)")
    t0 = tries[0]

    def invocations(stmts):
        """(min, max) number of validator.validate(obj...) calls over the paths of a statement list"""
        lo = hi = 0
        for st in stmts:
            if isinstance(st, ast.If):
                a = invocations(st.body)
                b = invocations(st.orelse)
                lo, hi = lo + min(a[0], b[0]), hi + max(a[1], b[1])
            else:
                k = sum(1 for c in ast.walk(st) if isinstance(c, ast.Call) and norm(c.func) == "validator.validate")
                lo, hi = lo + k, hi + k
        return lo, hi

    lo, hi = invocations(t0.body)
    ctx.check((lo, hi) == (1, 1), "C10.R6", f"{v.qualname}:invoked", t0.body[0],
              f"an iteration of the validator loop invokes validator.validate between {lo} and {hi} times: " + ("on some path the validator is skipped although its fields are valid" if lo == 0 else "a validator runs more than once"),
              v, t0, detail="exactly one validator.validate(obj, ...) per path")
    from ..pathcond import complements, parents_of, path_condition
    from ..boolx import BoolEval, Unknown
    pmap = parents_of(fn)
    tmap = parents_of(t0)
    ev6 = BoolEval(complements({"kwargs": "has_kwargs", "validator.params == kwargs.keys()": "same_keys", "kwargs.keys() == validator.params": "same_keys"}))
    forms = {"validator.validate(obj)": lambda x: not x["has_kwargs"],
             "validator.validate(obj, **kwargs)": lambda x: x["has_kwargs"] and x["same_keys"],
             "validator.validate(obj, **{k: kwargs[k] for k in validator.params})": lambda x: x["has_kwargs"] and not x["same_keys"]}
    for c in ast.walk(t0):
        if isinstance(c, ast.Call) and norm(c.func) == "validator.validate":
            text = norm(c)
            want = forms.get(text)
            if want is None:
                ctx.fail("C10.R6", f"{v.qualname}:call-form", c, f"`{text}` is not one of the documented invocation forms (obj alone; obj with all kwargs; obj with the parameters the validator declares)", v.module.relpath, c.lineno)
                continue
            try:
                got = ev6.compile(path_condition(t0, c, tmap))
                bad = [x for x in ({"has_kwargs": a, "same_keys": b} for a in (False, True) for b in (False, True)) if bool(got(x)) != bool(want(x))]
            except Unknown as err:
                ctx.undecided("C10.R6", f"{v.qualname}:{text}: {err}")
                continue
            ctx.check(not bad, "C10.R6", f"{v.qualname}:{text[:40]}", c, f"`{text}` is selected under the wrong condition ({bad[:1]}): extra / missing keyword arguments make the validator raise TypeError or skip parameters", v, c, detail="form matches the kwargs situation")
    # location of the error
    loc_ok = any(isinstance(n, ast.Assign) and norm(n.targets[0]) == "err" and isinstance(n.value, ast.Call) and (dotted(n.value.func) or "").endswith("ValidationError")
                 and any(k.arg == "children" and isinstance(k.value, ast.Dict) and k.value.keys and norm(k.value.keys[0]) == "aliaser(alias)" and norm(k.value.values[0]) == "err" for k in n.value.keywords)
                 and "validator.field is not None" in norm(path_condition(fn, n, pmap)) for n in ast.walk(loop))
    ctx.check(loc_ok, "C10.R6", f"{v.qualname}:field-location", loop, "the error of a field validator is no longer nested under the aliased field name (aliaser(alias)) when validator.field is set", v, loop, detail="ValidationError(children={aliaser(alias): err}) iff validator.field is not None")
    # continuation arguments
    for c in ast.walk(loop):
        if isinstance(c, ast.Call) and isinstance(c.func, ast.Name) and c.func.id == "validate":
            args = [norm(a) for a in c.args]
            kws = {k.arg: norm(k.value) for k in c.keywords}
            ctx.check(args[:1] == ["obj"] and (args[2:3] == ["kwargs"] or kws.get("kwargs") == "kwargs") and kws.get("aliaser") == "aliaser", "C10.R6", f"{v.qualname}:continuation-args", c,
                      f"`{short(c, 70)}`: the continuation after a discard does not forward obj / kwargs / aliaser: the remaining validators run on other arguments or their errors lose the aliaser", v, c, detail="validate(obj, next_validators, kwargs, aliaser=aliaser)")
    # the error handler converts through the aliaser and both outcomes of the continuation raise the merged error
    h_ok = any(isinstance(h, ast.ExceptHandler) and is_ve(model, v, h.type) and any(norm(x) == "err = apply_aliaser(e, aliaser)" or ("apply_aliaser(" in norm(x) and "aliaser" in norm(x)) for x in h.body) for h in t0.handlers)
    ctx.check(h_ok, "C10.R6", f"{v.qualname}:aliased-error", t0, "the validator's error no longer goes through apply_aliaser(e, aliaser)", v, t0, detail="err = apply_aliaser(e, aliaser)")
    merged = any(isinstance(n, ast.Assign) and norm(n) == "error = merge_errors(error, err)" for n in walk_no_nested(loop))
    ctx.check(merged, "C10.R6", f"{v.qualname}:accumulated", loop, "a failing validator's error is not merged into the accumulated error", v, loop, detail="error = merge_errors(error, err)")

    # ---------------- R7: the object node's validator section
    ctx.rule("C10.R7", "ObjectMethod: validators whose dependencies are all valid run on the mock when other fields failed (their errors merged and raised), all selected validators run on the constructed object otherwise; init values come from the data or, for absent fields having one, from the default factory", floor=8)
    omn = om.node
    opar = parents_of(omn)
    from .common_children import _bindings
    ev7 = BoolEval(complements({"self.validators": "has_validators", "self.init_defaults": "has_init", "name in values": "in_values", "field_errors": "has_ferr", "errors": "has_err",
                                "name not in field_errors": "!name_failed", "default_factory is not None": "has_factory"}))
    names7 = ["has_validators", "has_init", "in_values", "has_ferr", "has_err", "name_failed", "has_factory"]
    # (the former condition `name not in field_errors` looked a Python name up among aliases: DESIGN 8.11; whether the field
    #  failed does not matter, validators depending on it are removed through invalid_fields)
    dom7 = lambda x: x["has_validators"] and (not x["name_failed"] or x["has_ferr"])
    sites7 = {"init-from-data": ([a for a in ast.walk(omn) if isinstance(a, ast.Assign) and norm(a) == "init[name] = values[name]"], lambda x: x["has_init"] and x["in_values"]),
              "init-from-default": ([a for a in ast.walk(omn) if isinstance(a, ast.Assign) and norm(a) == "init[name] = default_factory()"], lambda x: x["has_init"] and not x["in_values"] and x["has_factory"])}
    calls7 = [c for c in ast.walk(omn) if isinstance(c, ast.Call) and isinstance(c.func, ast.Name) and c.func.id == "validate"]
    mock = [c for c in calls7 if c.args and isinstance(c.args[0], ast.Call) and (dotted(c.args[0].func) or "").endswith("ValidatorMock")]
    real = [c for c in calls7 if c not in mock]
    sites7["mock-run"] = (mock, lambda x: x["has_ferr"] or x["has_err"])
    sites7["real-run"] = (real, lambda x: not (x["has_ferr"] or x["has_err"]))
    for kind, (ss, want) in sites7.items():
        if len(ss) != 1:
            ctx.fail("C10.R7", f"{om.qualname}:{kind}", None, f"expected exactly one `{kind}` site in the validator section of ObjectMethod.deserialize, found {len(ss)}", om.module.relpath, omn.lineno)
            continue
        try:
            got = ev7.compile(path_condition(omn, ss[0], opar))
            bad = next((x for x in valuations(names7, dom7) if bool(got(x)) != bool(want(x))), None)
        except Unknown as err:
            ctx.undecided("C10.R7", f"{om.qualname}:{kind}: {err}")
            continue
        ctx.check(bad is None, "C10.R7", f"{om.qualname}:{kind}", ss[0], f"`{short(ss[0], 60)}` is reached under the wrong condition ([{show(bad) if bad else ''}])", om, ss[0], detail="truth table of the reach condition")
    if len(mock) == 1 and len(real) == 1:
        mc, rc = mock[0], real[0]
        bind7 = _bindings(omn)
        # the mock carries the deserialized values; the filtered list excludes validators depending on an invalid field
        ctx.check(len(mc.args[0].args) >= 2 and norm(mc.args[0].args[1]) == "values", "C10.R7", f"{om.qualname}:mock-values", mc, "the validator mock is not built from the deserialized values", om, mc, detail="ValidatorMock(cls, values)")
        flt = mc.args[1] if len(mc.args) > 1 else None
        sname = None
        ok = isinstance(flt, (ast.ListComp, ast.GeneratorExp)) and norm(flt.generators[0].iter) == "validators" and len(flt.generators[0].ifs) == 1
        if ok:
            t_ = flt.generators[0].ifs[0]
            ok = isinstance(t_, ast.Call) and norm(t_.func) == f"{norm(flt.generators[0].target)}.dependencies.isdisjoint" and len(t_.args) == 1 and isinstance(t_.args[0], ast.Name)
            sname = t_.args[0].id if ok else None
        ctx.check(ok, "C10.R7", f"{om.qualname}:mock-filter", mc, "on the error path validators are not filtered by `dependencies.isdisjoint(<invalid fields>)`: a validator reads a field that failed (AttributeError on the mock) or a valid one is skipped", om, mc, detail="[v for v in validators if v.dependencies.isdisjoint(invalid_fields)]")
        inv = [a for a in ast.walk(omn) if isinstance(a, ast.Assign) and sname and norm(a.targets[0]) == sname]
        aug = [a for a in ast.walk(omn) if isinstance(a, ast.AugAssign) and sname and norm(a.target) == sname]
        first = min(inv, key=lambda a: a.lineno) if inv else None
        # (a) a new set (never the node's own post_init_modified object, which an in-place update would corrupt for later calls)
        fresh = first is not None and "self.post_init_modified" in norm(first.value) and (
            (isinstance(first.value, ast.BinOp) and isinstance(first.value.op, ast.BitOr))
            or norm(first.value) in ("set(self.post_init_modified)", "self.post_init_modified.copy()", "{*self.post_init_modified}"))      # an explicit copy is a new set too
        # additions made with `.update(...)` / `.add(...)` on the set count like `|=`
        upd = [c_.args[0] for c_ in ast.walk(omn) if isinstance(c_, ast.Call) and isinstance(c_.func, ast.Attribute) and c_.func.attr == "update" and sname and norm(c_.func.value) == sname and c_.args]
        ctx.check(fresh and all(a.lineno > first.lineno for a in aug), "C10.R7", f"{om.qualname}:invalid-fields", (first or omn.body[0]),
                  "the set of invalid fields is not built as a new set from post_init_modified: an in-place update mutates the node's own post_init_modified, so failed fields accumulate across calls", om, first or omn, detail="self.post_init_modified | {...}")
        # (b) it is made of field *names* (what validator dependencies are), for the fields whose alias has an error
        txt = " ; ".join(norm(a.value) for a in inv) + " ; " + " ; ".join(norm(a.value) for a in aug) + " ; " + " ; ".join(norm(u_) for u_ in upd)
        names_ok = any(isinstance(c_, (ast.SetComp, ast.GeneratorExp)) and norm(c_.elt).endswith(".name") and norm(c_.generators[0].iter) == "self.fields" and any(norm(i_).endswith(".alias in field_errors") or ".alias in field_errors" in norm(i_) for i_ in c_.generators[0].ifs)
                       for root_ in [a.value for a in inv + aug] + upd for c_ in ast.walk(root_))
        ctx.check(names_ok and "field_errors.keys()" not in txt, "C10.R7", f"{om.qualname}:invalid-names", (first or omn.body[0]),
                  "validators are filtered with error keys (aliases, or nested keys of a flattened object) although their dependencies are field names: with an alias different from the name a validator depending on the failed field runs on the mock (NonTrivialDependency / default value)", om, first or omn, detail="{field.name for field in self.fields if field.alias in field_errors}")
        agg_ok = any("not in values" in norm(a.value) and ".name" in norm(a.value) for a in inv + aug)
        ctx.check(agg_ok, "C10.R7", f"{om.qualname}:invalid-aggregates", (first or omn.body[0]), "aggregate fields (flattened / pattern / additional) that failed are not counted as invalid", om, first or omn, detail="aggregate field names absent from values")
        for c, nm in ((mc, "mock"), (rc, "real")):
            kws = {k.arg: norm(k.value) for k in c.keywords}
            third = norm(c.args[2]) if len(c.args) > 2 else kws.get("kwargs")
            ctx.check(third == "init" and kws.get("aliaser") == "self.aliaser", "C10.R7", f"{om.qualname}:{nm}-args", c, f"`{short(c, 60)}` does not pass the init values and the node's aliaser", om, c, detail="validate(..., init, aliaser=self.aliaser)")
        # real run on the constructed object with the selected validators
        ctx.check(norm(rc.args[0]) in ("obj", "self.constructor.construct(values)") and norm(rc.args[1]) == "validators" and isinstance(opar.get(rc), ast.Return), "C10.R7", f"{om.qualname}:real-run-args", rc,
                  "the validated object is not the constructed one, or the result of validate() is not what is returned", om, rc, detail="return validate(obj, validators, init, ...)")
        sel = bind7.get("validators")
        ok = isinstance(sel, ast.ListComp) and norm(sel.generators[0].iter) == "self.validators" and [norm(x) for x in sel.generators[0].ifs] == [f"not {norm(sel.generators[0].target)}.dependencies.isdisjoint(aliases)"] and norm(bind7.get("aliases")) == "values.keys()"
        ctx.check(ok, "C10.R7", f"{om.qualname}:selection", sel if sel is not None else omn.body[0], "validators are not selected as those with at least one dependency among the deserialized values", om, sel if sel is not None else omn, detail="not v.dependencies.isdisjoint(values.keys())")
        # mock errors merged, then raised
        tr = opar.get(opar.get(mc))
        merged_ok = isinstance(tr, ast.Try) and any(is_ve(model, om, h.type) and any(norm(x) == f"error = merge_errors(error, {h.name})" for x in h.body) for h in tr.handlers)
        blk = next((b for b in (getattr(opar.get(tr), "body", []), getattr(opar.get(tr), "orelse", [])) if tr in b), []) if tr is not None else []
        after = blk[blk.index(tr) + 1:] if tr in blk else []
        ctx.check(merged_ok and after and norm(after[0]) == "raise error", "C10.R7", f"{om.qualname}:mock-merge", mc, "errors of the validators run on the mock are not merged into the structural error and raised", om, mc, detail="error = merge_errors(error, err); raise error")

    # ---------------- R8: every source of validators reaches the compiled method
    ctx.rule("C10.R8", "validators registered on the type, on its generic origin, in Annotated metadata, on a field or passed per call are merged into the factory that is used", floor=5)
    kinds = {"type": "get_validators(tp)", "origin": "get_validators(get_origin(tp))", "annotated": "VALIDATORS_METADATA", "field": "f.validators", "call": "map(Validator, validators)"}
    seen8 = {}
    for fi in model.functions.values():
        if fi.module.name != "apischema.deserialization":
            continue
        pm8 = {c: p for p in ast.walk(fi.node) for c in ast.iter_child_nodes(p)}
        for n in walk_no_nested(fi.node, include_lambda=True):
            t = norm(n) if isinstance(n, (ast.Call, ast.Attribute, ast.Name)) else None
            for kind, frag in kinds.items():
                if t is None or (t != frag and not (kind == "annotated" and isinstance(n, ast.Name) and t == frag)):
                    continue
                # climb to the enclosing merge call
                p, mg = pm8.get(n), None
                while p is not None and not isinstance(p, ast.stmt):
                    if isinstance(p, ast.Call) and isinstance(p.func, ast.Attribute) and p.func.attr == "merge":
                        mg = p
                        break
                    p = pm8.get(p)
                kept = False
                if mg is not None:
                    q = pm8.get(mg)
                    while isinstance(q, (ast.Attribute, ast.Call)):
                        q = pm8.get(q)
                    kept = isinstance(q, (ast.Assign, ast.AnnAssign, ast.Return, ast.ListComp, ast.List, ast.Tuple, ast.GeneratorExp, ast.comprehension, ast.keyword))
                seen8.setdefault(kind, []).append((fi, n, mg is not None and kept))
    for kind, frag in kinds.items():
        sites = seen8.get(kind, [])
        ctx.check(any(ok for _, _, ok in sites), "C10.R8", f"validators:{kind}", sites[0][1] if sites else None,
                  f"validators from `{frag}` never reach a `.merge(...)` whose result is kept: they are registered but never run", sites[0][0] if sites else None, sites[0][1] if sites else None, detail=f"{len(sites)} site(s)")

    # ---------------- R9: what a validator declaration says reaches the Validator object
    ctx.rule("C10.R9", "validator(field=, discard=, owner=) reaches the registered Validator unchanged; a field validator discards its own field by default; generator validators raise the errors they yield; dependencies = AST dependencies | declared parameters", floor=7)
    vd = model.func(f"{VALIDATORS_MOD}.validator")
    lam = [n for n in ast.walk(vd.node) if isinstance(n, ast.Lambda)]
    ok = False
    for l in lam:
        c = l.body
        if isinstance(c, ast.Call) and isinstance(c.func, ast.Name) and c.func.id == "validator":
            kws = {k.arg: norm(k.value) for k in c.keywords}
            ok = kws == {"field": "field", "discard": "discard", "owner": "owner"} and [norm(a) for a in c.args] == [l.args.args[0].arg]
    ctx.check(ok, "C10.R9", f"{vd.qualname}:deferred", lam[0] if lam else vd.node.body[0], "the decorator-with-arguments form does not forward field / discard / owner to the decorated function's registration: the option is silently ignored", vd, vd.node, detail="lambda func: validator(func, field=field, discard=discard, owner=owner)")
    ctor = [c for c in ast.walk(vd.node) if isinstance(c, ast.Call) and isinstance(c.func, ast.Name) and c.func.id == "Validator"]
    ok = len(ctor) == 1 and [norm(a) for a in ctor[0].args] + [f"{k.arg}={norm(k.value)}" for k in ctor[0].keywords] in (["arg", "field", "discard"], ["arg", "field=field", "discard=discard"])
    ctx.check(ok, "C10.R9", f"{vd.qualname}:construct", ctor[0] if ctor else vd.node.body[0], "Validator is not built with (func, field, discard)", vd, vd.node, detail="Validator(arg, field, discard)")
    reg = [c for c in ast.walk(vd.node) if isinstance(c, ast.Call) and norm(c.func).endswith("._register")]
    ctx.check(len(reg) == 1 and [norm(a) for a in reg[0].args] == ["owner"] and norm(reg[0].func.value) == norm(ast.parse("validator_").body[0].value), "C10.R9", f"{vd.qualname}:register", reg[0] if reg else vd.node.body[0],
              "the Validator built for a function validator is not registered on its owner", vd, vd.node, detail="validator_._register(owner)")
    vi = model.func(f"{VALIDATORS_MOD}.Validator.__init__")
    pmi = parents_of(vi.node)
    ev9 = BoolEval(complements({"field is not None": "has_field", "discard is None": "!has_discard", "errors": "has_errors"}))
    st_d = [a for a in ast.walk(vi.node) if isinstance(a, (ast.Assign, ast.AnnAssign)) and norm(a.targets[0] if isinstance(a, ast.Assign) else a.target) == "self.discard"]
    try:
        by_val = {}
        for a in st_d:
            by_val.setdefault(norm(a.value), []).append(ev9.compile(path_condition(vi.node, a, pmi)))
        want9 = {"(field,)": lambda x: x["has_field"] and not x["has_discard"], "discard": lambda x: not (x["has_field"] and not x["has_discard"])}
        bad = None
        for x in ({"has_field": a, "has_discard": b, "has_errors": False} for a in (False, True) for b in (False, True)):
            for val, w in want9.items():
                if any(bool(f(x)) for f in by_val.get(val, [])) != bool(w(x)):
                    bad = (val, x)
        ctx.check(set(by_val) == set(want9) and bad is None, "C10.R9", f"{vi.qualname}:discard-default", st_d[0] if st_d else vi.node.body[0],
                  f"Validator.discard is not `(field,)` exactly when a field is given without discard ({bad}): a failing field validator no longer discards its field (dependent validators run on it), or an explicit discard is overridden", vi, vi.node, detail="(field,) iff field and no discard, else discard")
    except Unknown as err:
        ctx.undecided("C10.R9", f"{vi.qualname}: {err}")
    ctx.check(any(norm(a) == "self.field = field" for a in ast.walk(vi.node) if isinstance(a, ast.Assign)), "C10.R9", f"{vi.qualname}:field", vi.node.body[0], "Validator.field is not the declared field: errors are no longer located under it", vi, vi.node, detail="self.field = field")
    gen = [f for f in vi.nested.values() if any(isinstance(r, ast.Raise) for r in ast.walk(f.node))]
    ok = False
    if len(gen) == 1:
        g = gen[0]
        pg = parents_of(g.node)
        rs = [r for r in ast.walk(g.node) if isinstance(r, ast.Raise)]
        try:
            f9 = ev9.compile(path_condition(g.node, rs[0], pg))
            ok = len(rs) == 1 and bool(f9({"has_field": False, "has_discard": False, "has_errors": True})) and not bool(f9({"has_field": False, "has_discard": False, "has_errors": False})) \
                and norm(rs[0].exc) == "build_validation_error(errors)" and any(norm(a) == "errors = list(func(*args, **kwargs))" for a in ast.walk(g.node) if isinstance(a, ast.Assign))
        except Unknown:
            ok = False
    ctx.check(ok, "C10.R9", f"{vi.qualname}:generator", gen[0].node if gen else vi.node.body[0], "a generator validator does not raise build_validation_error(<all yielded errors>) exactly when it yielded something", vi, vi.node, detail="errors = list(func(...)); if errors: raise build_validation_error(errors)")
    rg = model.func(f"{VALIDATORS_MOD}.Validator._register")
    ok = any(isinstance(a, ast.Assign) and norm(a.targets[0]) == "self.dependencies" and "find_all_dependencies(owner, self.func)" in norm(a.value) and "self.params" in norm(a.value) and isinstance(a.value, ast.BinOp) and isinstance(a.value.op, ast.BitOr) for a in ast.walk(rg.node))
    ctx.check(ok, "C10.R9", f"{rg.qualname}:dependencies", rg.node.body[0], "a validator's dependencies are not the fields its body reads united with its declared parameters: it runs although one of them failed", rg, rg.node, detail="find_all_dependencies(owner, self.func) | self.params")

    # ---------------- R10: dependency discovery
    ctx.rule("C10.R10", "find_all_dependencies: a result is memoised only when it was computed with an empty recursion guard; the guard is per call path (a fresh set is passed down)", floor=3)
    fd = model.func("apischema.validation.dependencies.find_all_dependencies")
    pmf = parents_of(fd.node)
    guard = fd.params[2] if len(fd.params) > 2 else None
    ctx.require(guard is not None, "find_all_dependencies lost its recursion guard parameter")
    stores = [n for n in ast.walk(fd.node) if isinstance(n, ast.Subscript) and isinstance(n.ctx, ast.Store) and norm(n.value) == "cache"]
    ctx.check(bool(stores), "C10.R10", f"{fd.qualname}:memo", fd.node.body[0], "find_all_dependencies no longer memoises (performance only) - rule instance vanished", fd, fd.node, nontrivial=False)
    for st in stores:
        cond = norm(path_condition(fd.node, st, pmf))
        ctx.check(f"not {guard}" in cond, "C10.R10", f"{fd.qualname}:memo-top-level", st,
                  f"`{short(pmf.get(st), 50)}` stores a result computed under a non-empty recursion guard: the guard cuts cycles, so the set of a helper reached inside a cycle is truncated; memoised, it is inherited by every later validator using that helper (it then runs although a field it reads is invalid)",
                  fd, st, detail=f"only under `not {guard}`")
    recs = [c for c in ast.walk(fd.node) if isinstance(c, ast.Call) and isinstance(c.func, ast.Name) and c.func.id == fd.name]
    for c in recs:
        g = c.args[2] if len(c.args) > 2 else next((k.value for k in c.keywords if k.arg == guard), None)
        fresh = isinstance(g, (ast.Set, ast.BinOp)) or (isinstance(g, ast.Call) and dotted(g.func) in ("set", "frozenset"))
        ctx.check(g is not None and fresh and guard in norm(g) and "member" in norm(g), "C10.R10", f"{fd.qualname}:guard-per-path", c,
                  f"`{short(c, 70)}`: the recursion guard passed down is not a fresh set extending the current one: a guard shared by the whole traversal also skips helpers reached a second time through another branch (diamond), whose dependencies are then missing", fd, c, detail="{*rec_guard, member}")
    skip = any(isinstance(n, ast.If) and norm(n.test) == f"member in {guard}" and any(isinstance(x, ast.Continue) for x in n.body) for n in ast.walk(fd.node))
    ctx.check(skip, "C10.R10", f"{fd.qualname}:cycle-cut", fd.node.body[0], "a member already on the call path is no longer skipped: mutual recursion between helpers does not terminate", fd, fd.node, detail="if member in rec_guard: continue")

    # ---------------- R11: helpers are resolved through the class hierarchy
    ctx.rule("C10.R11", "find_all_dependencies resolves `self.<attr>` on the validated class through its MRO (hasattr / getattr), unwraps properties to their getter and replaces callables by their own dependencies", floor=4)
    cls_p = fd.params[0]
    own_ns = [n for n in ast.walk(fd.node) if (isinstance(n, ast.Call) and dotted(n.func) == "vars" and n.args and norm(n.args[0]) == cls_p)
              or (isinstance(n, ast.Attribute) and n.attr == "__dict__" and norm(n.value) == cls_p)]
    ctx.check(not own_ns, "C10.R11", f"{fd.qualname}:mro-lookup", None,
              f"`{short(own_ns[0], 40) if own_ns else ''}` only sees the attributes defined in the class body: a method or property inherited from a base class is not expanded into the fields it reads, its name stays in the dependency set as if it were a field (the validator is then filtered out as 'all dependencies defaulted', or runs although a field behind the helper is invalid)",
              fd, own_ns[0] if own_ns else fd.node, detail=f"no vars({cls_p}) / {cls_p}.__dict__")
    members = [n for n in ast.walk(fd.node) if isinstance(n, ast.Assign) and norm(n.targets[0]) == "member"]
    ok = any(isinstance(m.value, ast.Call) and dotted(m.value.func) in ("getattr", "inspect.getattr_static", "getattr_static") and len(m.value.args) >= 2 and norm(m.value.args[0]) == cls_p for m in members)
    ctx.check(ok, "C10.R11", f"{fd.qualname}:member", None, "the class member named by a dependency is no longer fetched with getattr on the class", fd, members[0] if members else fd.node, detail=f"member = getattr({cls_p}, attr)")
    unwrap = any(isinstance(n, ast.If) and norm(n.test) == "isinstance(member, property)" and any(isinstance(x, ast.Assign) and norm(x.targets[0]) == "member" and norm(x.value) == "member.fget" for x in n.body) for n in ast.walk(fd.node))
    ctx.check(unwrap, "C10.R11", f"{fd.qualname}:property", None, "a property is no longer replaced by its getter: the fields it reads are not dependencies of the validators using it", fd, fd.node, detail="member = member.fget")
    expand = [n for n in ast.walk(fd.node) if isinstance(n, ast.If) and norm(n.test) == "callable(member)"]
    ok = len(expand) == 1 and any(isinstance(x, ast.Expr) and norm(x.value) == "dependencies.remove(attr)" for x in expand[0].body) \
        and any(isinstance(x, ast.Expr) and isinstance(x.value, ast.Call) and norm(x.value.func) == "dependencies.update" for x in ast.walk(expand[0]))
    ctx.check(ok, "C10.R11", f"{fd.qualname}:expand", None, "a callable member is no longer replaced (removed, then updated) by its own dependencies", fd, expand[0] if expand else fd.node, detail="dependencies.remove(attr); dependencies.update(rec_deps)")

    # ---------------- R15: private names
    ctx.rule("C10.R15", "dependency discovery reads the validator's source, where `self.__helper` is not yet mangled, while the class holds `_Cls__helper`: the recorded name is mangled with the defining class, otherwise the helper is never found, its name stays in the dependency set as a field nobody provides and the validator never runs", floor=2)
    dfv = model.func("apischema.validation.dependencies.DependencyFinder.visit_Attribute")
    t15 = norm(dfv.node)
    mangles = ".startswith('__')" in t15 and ".endswith('__')" in t15 and any(isinstance(j, ast.JoinedStr) and norm(j).startswith("f'_{") for j in ast.walk(dfv.node))
    ctx.check(mangles, "C10.R15", f"{dfv.qualname}:mangling", None,
              "`self.__name` is recorded under its source spelling: a validator reaching its fields through a private helper (`def __hidden(self)`) has the single dependency '__hidden', never provided, and is silently dropped for every datum",
              dfv, dfv.node, detail="'_' + class name + attr for names starting with two underscores")
    fdp = model.func("apischema.validation.dependencies.find_dependencies")
    ctx.check("__qualname__" in norm(fdp.node), "C10.R15", f"{fdp.qualname}:defining-class", None, "the defining class (for mangling) is no longer derived from the function's __qualname__", fdp, fdp.node, detail="class name from func.__qualname__")

    # ---------------- R14: the mock on which validators run when some field is invalid
    ctx.rule("C10.R14", "ValidatorMock stands for the object that could not be built: a deserialized value is returned whatever it is (None included: presence is `name in values`), a defaulted field of the *deserialization* view gives its default, `__class__` answers the validated class and helpers take the class from `obj.__class__` (never type(obj)), static methods are not bound", floor=6)
    mk = model.func("apischema.validation.mock.ValidatorMock.__getattribute__")
    body14 = mk.node.body
    # (a) presence by membership
    mock_presence_rule(ctx, "C10.R14")
    # (b) fields of the deserialization view
    ofc = [c for c in walk_no_nested(mk.node) if isinstance(c, ast.Call) and dotted(c.func) == "object_fields"]
    ctx.check(len(ofc) == 1 and any(k.arg == "deserialization" and norm(k.value) == "True" for k in ofc[0].keywords), "C10.R14", f"{mk.qualname}:fields", None, "the mock does not look defaults up among the fields of the deserialization view", mk, ofc[0] if ofc else mk.node, detail="object_fields(cls, deserialization=True)")
    sk = model.functions.get("apischema.objects.getters.object_fields.<locals>.GetFields._skip_field")
    ctx.require(sk is not None, "object_fields: GetFields._skip_field vanished")
    ev14 = BoolEval({"field.skip.deserialization": "skip_d", "field.skip.serialization": "skip_s", "deserialization": "d", "serialization": "s"})
    rets14 = [r for r in walk_no_nested(sk.node) if isinstance(r, ast.Return)]
    try:
        got14 = ev14.compile(rets14[0].value)
        bad14 = next((v for v in valuations(["skip_d", "skip_s", "d", "s"]) if bool(got14(v)) != bool((v["skip_d"] and v["d"]) or (v["skip_s"] and v["s"]))), None)
        ctx.check(bad14 is None, "C10.R14", f"{sk.qualname}:view", None,
                  f"object_fields(..., deserialization=, serialization=) drops the wrong fields under [{show(bad14) if bad14 else ''}]: the flags are crossed - the deserialization view loses the fields skipped for *serialization* only, so the mock does not know a defaulted `skip(serialization=True)` field and raises NonTrivialDependency out of deserialize (and object_serialization(cls, [...]) serializes deserialization-only fields)",
                  sk, rets14[0], detail="(skip.deserialization and deserialization) or (skip.serialization and serialization)")
    except Unknown as err:
        ctx.undecided("C10.R14", f"{sk.qualname}: {err}")
    # (c) __class__ and the helpers using it
    ctx.check(any(isinstance(n, ast.If) and norm(n.test) == "name == '__class__'" and any(isinstance(r, ast.Return) and norm(r.value) == "cls" for r in n.body) for n in walk_no_nested(mk.node)), "C10.R14", f"{mk.qualname}:__class__", None, "the mock no longer answers the validated class for `__class__`", mk, mk.node, detail="if name == '__class__': return cls")
    n_cls = 0
    for q14 in ("apischema.objects.getters.object_fields2", f"{VALIDATORS_MOD}.validate"):
        f14 = model.func(q14)
        p0 = f14.params[0]
        for c in walk_no_nested(f14.node):
            if isinstance(c, ast.Call) and dotted(c.func) == "type" and len(c.args) == 1 and norm(c.args[0]) == p0:
                ctx.fail("C10.R14", f"{q14}:type({p0})", None, f"`type({p0})` is ValidatorMock itself when validators run on the mock (another field being invalid): get_alias(mock) then finds no field and a failing *field* validator raises AttributeError out of deserialize instead of reporting its error under the field", f14.module.relpath, c.lineno)
        if any(isinstance(a, ast.Attribute) and a.attr == "__class__" and norm(a.value) == p0 for a in walk_no_nested(f14.node)):
            n_cls += 1
            ctx.ok("C10.R14", f"{q14}:{p0}.__class__", "class taken from obj.__class__", True, f14.loc)
    ctx.check(n_cls >= 1, "C10.R14", "helpers:obj.__class__", None, "no helper takes the class of the validated object from obj.__class__ any more (rule to be re-derived)", None, None, detail=f"{n_cls} helper(s)", nontrivial=False)
    # (d) static methods
    handles_static = any(isinstance(c, ast.Call) and dotted(c.func) in ("getattr_static", "inspect.getattr_static") for c in walk_no_nested(mk.node)) and "staticmethod" in norm(mk.node)
    ctx.check(handles_static, "C10.R14", f"{mk.qualname}:staticmethod", None, "a static method reached through the mock is bound like an instance method (partial(member, self)): `self.helper(x)` raises TypeError out of deserialize as soon as another field is invalid", mk, mk.node, detail="getattr_static(cls, name) is a staticmethod -> returned unbound")

    # ---------------- R13: validators without known dependencies on object types
    ctx.rule("C10.R13", "object types: validators that are not registered on a class (per-call `validators=`, `validators(...)` metadata) have no dependency set; they are not handed to the dependency scheduler of ObjectMethod (which would drop them as 'all dependencies defaulted') but executed on the constructed object", floor=3)
    ob = model.func("apischema.deserialization.DeserializationMethodVisitor.object")
    rets13 = [r for r in walk_no_nested(ob.node) if isinstance(r, ast.Return) and isinstance(r.value, ast.Call) and norm(r.value.func) == "self._factory" and r.value.args]
    ctx.require(len(rets13) == 1, "object(): `return self._factory(<factory>, dict, validation=False)` not found")
    fname = norm(rets13[0].value.args[0])
    outer = ob.nested.get(fname)
    ctx.require(outer is not None, f"object(): closure {fname} not found")
    builds_object = any(isinstance(c, ast.Call) and (dotted(c.func) or "").endswith("ObjectMethod") for c in walk_no_nested(outer.node))
    vparam = outer.params[1] if len(outer.params) > 1 else "validators"
    # the two halves of the partition: comprehensions filtered on `owner is None` / `is not None`, or lists filled by one loop
    part_free = [n for n in ast.walk(outer.node) if isinstance(n, (ast.ListComp, ast.GeneratorExp)) and norm(n.generators[0].iter) == vparam and any(norm(i) in ("v.owner is None", "validator.owner is None") for i in n.generators[0].ifs)]
    part_reg = [n for n in ast.walk(outer.node) if isinstance(n, (ast.ListComp, ast.GeneratorExp)) and norm(n.generators[0].iter) == vparam and any(norm(i) in ("v.owner is not None", "validator.owner is not None") for i in n.generators[0].ifs)]
    free_names, reg_names = set(), set()
    for a in walk_no_nested(outer.node):
        if isinstance(a, (ast.Assign, ast.AnnAssign)) and getattr(a, "value", None) is not None:
            tg = a.targets[0] if isinstance(a, ast.Assign) else a.target
            if isinstance(tg, ast.Name):
                if any(x is c_ for c_ in part_free for x in ast.walk(a.value)):
                    free_names.add(tg.id)
                if any(x is c_ for c_ in part_reg for x in ast.walk(a.value)):
                    reg_names.add(tg.id)
    for lp in walk_no_nested(outer.node):
        if not (isinstance(lp, ast.For) and norm(lp.iter) == vparam and isinstance(lp.target, ast.Name)):
            continue
        v_ = lp.target.id
        for x in ast.walk(lp):
            # (free if v.owner is None else owned).append(v)
            if isinstance(x, ast.Call) and isinstance(x.func, ast.Attribute) and x.func.attr == "append" and len(x.args) == 1 and norm(x.args[0]) == v_ and isinstance(x.func.value, ast.IfExp) \
                    and isinstance(x.func.value.body, ast.Name) and isinstance(x.func.value.orelse, ast.Name) and norm(x.func.value.test) in (f"{v_}.owner is None", f"{v_}.owner is not None"):
                a_, b_ = x.func.value.body.id, x.func.value.orelse.id
                if norm(x.func.value.test).endswith("is not None"):
                    a_, b_ = b_, a_
                free_names.add(a_)
                reg_names.add(b_)
            # if v.owner is None: free.append(v) else: owned.append(v)
            if isinstance(x, ast.If) and norm(x.test) in (f"{v_}.owner is None", f"{v_}.owner is not None") and x.orelse:
                def appended(block):
                    return [c_.func.value.id for s_ in block for c_ in ast.walk(s_) if isinstance(c_, ast.Call) and isinstance(c_.func, ast.Attribute) and c_.func.attr == "append"
                            and isinstance(c_.func.value, ast.Name) and len(c_.args) == 1 and norm(c_.args[0]) == v_]
                a_, b_ = appended(x.body), appended(x.orelse)
                if norm(x.test).endswith("is not None"):
                    a_, b_ = b_, a_
                free_names.update(a_)
                reg_names.update(b_)
    has_free, has_reg = bool(part_free) or bool(free_names), bool(part_reg) or bool(reg_names)
    ctx.check(not builds_object and has_free and has_reg, "C10.R13", f"{ob.qualname}:partition", None,
              "every validator reaching an object type is handed to ObjectMethod, which keeps a validator only when its dependency set meets the provided fields: a validator passed with deserialize(Cls, data, validators=[check]) or validators(check) metadata has an empty set and silently never runs (it does run for int, str, list...)",
              ob, rets13[0], detail="validators split on `owner is None`")
    if has_free and has_reg:
        def is_part(e, comps, names):
            return any(x is c_ for c_ in comps for x in ast.walk(e)) or (isinstance(e, ast.Name) and e.id in names)
        inner_calls = [c for c in walk_no_nested(outer.node) if isinstance(c, ast.Call) and isinstance(c.func, ast.Name) and c.func.id in ob.nested and c.func.id != fname]
        ok = len(inner_calls) == 1 and len(inner_calls[0].args) >= 2 and is_part(inner_calls[0].args[1], part_reg, reg_names - free_names)
        ctx.check(ok, "C10.R13", f"{ob.qualname}:registered-to-scheduler", None, "the object node does not receive exactly the validators registered on a class", ob, inner_calls[0] if inner_calls else outer.node, detail="factory(constraints, [v ... if v.owner is not None])")
        wraps13 = [c for c in walk_no_nested(outer.node) if isinstance(c, ast.Call) and (dotted(c.func) or "").endswith("ValidatorMethod")]
        ok = len(wraps13) == 1 and len(wraps13[0].args) == 3 and norm(wraps13[0].args[2]) == "self.aliaser"
        if ok:
            ok = is_part(wraps13[0].args[1], part_free, free_names - reg_names)
        ctx.check(ok, "C10.R13", f"{ob.qualname}:free-run", None, "the validators without owner are not executed on the constructed object (ValidatorMethod(method, <free>, self.aliaser))", ob, wraps13[0] if wraps13 else outer.node, detail="ValidatorMethod(method, free_validators, self.aliaser)")
    vinit = model.func(f"{VALIDATORS_MOD}.Validator.__init__")
    ctx.check(any(isinstance(a, (ast.Assign, ast.AnnAssign)) and norm(a.targets[0] if isinstance(a, ast.Assign) else a.target) == "self.owner" and norm(a.value) == "None" for a in walk_no_nested(vinit.node)), "C10.R13", f"{vinit.qualname}:owner", None,
              "a Validator no longer starts without owner: registered and free validators cannot be told apart", vinit, vinit.node, detail="self.owner = None")

    # ---------------- R12: paths yielded by validators
    ctx.rule("C10.R12", "build_validation_error: a yielded path that is a single key (an index, a string) is wrapped before its emptiness is tested - a falsy key (index 0, '') is a location, not the absence of a path", floor=2)
    bve = model.func("apischema.validation.errors.build_validation_error")
    pvar = None
    for n in walk_no_nested(bve.node):
        if isinstance(n, ast.Assign) and isinstance(n.targets[0], ast.Tuple) and len(n.targets[0].elts) == 2 and norm(n.value) == "error":
            pvar = norm(n.targets[0].elts[0])
    ctx.require(pvar is not None, "build_validation_error: `path, msg = error` not found")
    wraps = [n for n in walk_no_nested(bve.node) if isinstance(n, ast.Assign) and norm(n.targets[0]) == pvar and norm(n.value) in (f"({pvar},)", f"[{pvar}]")]
    tests = [n for n in walk_no_nested(bve.node) if isinstance(n, ast.If) and norm(n.test) in (f"not {pvar}", pvar, f"len({pvar}) == 0", f"{pvar} == ()")]
    ctx.check(len(wraps) == 1, "C10.R12", f"{bve.qualname}:wrap", None, "a single key is no longer wrapped into a one-element path", bve, bve.node, detail=f"{pvar} = ({pvar},)")
    for t_ in tests:
        before = bool(wraps) and wraps[0].lineno < t_.lineno and not any(x is wraps[0] for b in (t_.body + t_.orelse) for x in ast.walk(b))
        ctx.check(before, "C10.R12", f"{bve.qualname}:emptiness", None,
                  f"`if {norm(t_.test)}` is evaluated on the raw yielded value: `yield 0, msg` (the documented form for the first element of a list) is falsy and its error lands at the root instead of under [0]",
                  bve, t_, detail="emptiness tested on the normalised path")
    ctx.check(bool(tests), "C10.R12", f"{bve.qualname}:empty-path", None, "an empty path no longer puts the message at the root", bve, bve.node, detail="`()` -> root message", nontrivial=False)


def mock_presence_rule(ctx, rule):
    """ValidatorMock: a deserialized value is returned whatever it is (presence = membership)."""
    from ..pathcond import parents_of as _po14, path_condition as _pc14
    model = ctx.model
    mk = model.func("apischema.validation.mock.ValidatorMock.__getattribute__")
    first_ret = min((n for n in walk_no_nested(mk.node) if isinstance(n, ast.Return) and n.value is not None), key=lambda n: n.lineno, default=None)
    pm14 = _po14(mk.node)
    cond14 = norm(_pc14(mk.node, first_ret, pm14)) if first_ret is not None else ""
    by_membership = first_ret is not None and cond14.replace("(", "").replace(")", "") == "name in values" and norm(first_ret.value) == "values[name]"
    # equivalent spelling: try: return values[name] / except KeyError: fall through
    by_lookup = False
    if first_ret is not None and norm(first_ret.value) == "values[name]":
        p_ = pm14.get(first_ret)
        if isinstance(p_, ast.Try) and first_ret in p_.body and any(h.type is not None and norm(h.type) in ("KeyError", "LookupError") for h in p_.handlers) and cond14 in ("", "True"):
            by_lookup = True
    ctx.check(by_membership or by_lookup, rule, f"{mk.qualname}:presence", None,
              f"the deserialized value is returned under `{cond14}` (value `{norm(first_ret.value) if first_ret is not None else '?'}`): a field whose value is None - an explicit null in the data - is taken for absent and the validator sees the field's default; its violation disappears from the report exactly when another field is invalid (one violation hides another)",
              mk, first_ret or mk.node, detail="if name in values: return values[name]")


def fixtures(ctx):
    src = "def f(xs, i=0):\n    for i, x in enumerate(xs):\n        f(xs[i:])\n        f(xs[i + 1:])\n"
    fn = ast.parse(src).body[0]

    class FI:
        node = fn
        params = ["xs", "i"]
    sm = Smaller(FI)
    calls = [n for n in ast.walk(fn) if isinstance(n, ast.Call) and dotted(n.func) == "f"]
    got = [sm.smaller(c.args[0]) for c in calls]
    if got != [False, True]:
        raise AnalysisError(f"C10 positive fixture failed: {got}")


def mutants(mb):
    mb.add_text("neg-mock-presence-try-except", "apischema/validation/mock.py", "        if name in values:\n            return values[name]\n", "        try:\n            return values[name]\n        except KeyError:\n            pass\n", negative=True)
    mb.add_text("private-names-not-mangled", "apischema/validation/dependencies.py", "            if self.cls_name and attr.startswith(\"__\") and not attr.endswith(\"__\"):\n                attr = f\"_{self.cls_name}{attr}\"\n", "", "C10.R15", "mangling")
    MK = "apischema/validation/mock.py"
    mb.add_text("mock-none-is-absent", MK, "        if name in values:\n            return values[name]\n", "        value = values.get(name)\n        if value is not None:\n            return value\n", "C10.R14", "presence")
    mb.add_text("getters-type-of-mock", "apischema/objects/getters.py", "        obj if isinstance(obj, (type, _GenericAlias)) else obj.__class__\n", "        obj if isinstance(obj, (type, _GenericAlias)) else type(obj)\n", "C10.R14", "object_fields2")
    mb.add_text("object-fields-flags-crossed", "apischema/objects/getters.py", "            return (field.skip.deserialization and deserialization) or (\n                field.skip.serialization and serialization\n            )\n", "            return (field.skip.deserialization and serialization) or (\n                field.skip.serialization and deserialization\n            )\n", "C10.R14", "view")
    mb.add_text("mock-binds-staticmethods", MK, "                if isinstance(getattr_static(cls, name), staticmethod):\n                    return member\n", "", "C10.R14", "staticmethod")
    mb.add_text("free-validators-to-scheduler", "apischema/deserialization/__init__.py", "        return self._factory(factory_with_free_validators, dict, validation=False)", "        return self._factory(factory, dict, validation=False)", "C10.R13", "partition")
    mb.add_text("free-validators-dropped", "apischema/deserialization/__init__.py", "            if free_validators:\n                method = ValidatorMethod(method, free_validators, self.aliaser)\n            return method\n", "            return method\n", "C10.R13", "free-run")
    mb.add_text("path-truthiness-on-raw-key", "apischema/validation/errors.py", "        if path is None:\n            path = ()\n        elif isinstance(path, str) or not isinstance(path, Collection):\n            path = (path,)  # a single key, possibly falsy (index 0, empty string)\n        if not path:\n            messages.append(msg)\n        else:\n",
                "        if not path:\n            messages.append(msg)\n        else:\n            if isinstance(path, str) or not isinstance(path, Collection):\n                path = (path,)\n", "C10.R12", "emptiness")
    D = "apischema/validation/dependencies.py"
    mb.add_text("deps-own-namespace", D, "        if not hasattr(cls, attr):\n            continue\n        member = getattr(cls, attr)\n", "        if attr not in vars(cls):\n            continue\n        member = vars(cls)[attr]\n", "C10.R11", "mro-lookup")
    mb.add_text("deps-dict-lookup", D, "        if not hasattr(cls, attr):\n            continue\n        member = getattr(cls, attr)\n", "        if attr not in cls.__dict__:\n            continue\n        member = cls.__dict__[attr]\n", "C10.R11", "mro-lookup")
    mb.add_text("deps-property-not-unwrapped", D, "        if isinstance(member, property):\n            member = member.fget\n", "", "C10.R11", "property")
    mb.add_text("deps-helper-kept", D, "            dependencies.remove(attr)\n", "", "C10.R11", "expand")
    mb.add_text("neg-deps-getattr-default", D, "        if not hasattr(cls, attr):\n            continue\n        member = getattr(cls, attr)\n", "        member = getattr(cls, attr, None)\n        if member is None:\n            continue\n", negative=True)
    V = "apischema/validation/validators.py"
    E = "apischema/validation/errors.py"
    M = "apischema/deserialization/methods.py"
    mb.add_text("validator-not-invoked", V, "            elif validator.params == kwargs.keys():\n                validator.validate(obj, **kwargs)\n", "            elif validator.params == kwargs.keys():\n                pass\n", "C10.R6", "invoked")
    mb.add_text("validator-kwargs-test-flipped", V, "            elif validator.params == kwargs.keys():\n", "            elif validator.params != kwargs.keys():\n", "C10.R6", "validate")
    mb.add_text("validator-field-location-lost", V, "            err = ValidationError(children={aliaser(alias): err})\n", "            pass\n", "C10.R6", "field-location")
    mb.add_text("validator-location-raw-alias", V, "            err = ValidationError(children={aliaser(alias): err})\n", "            err = ValidationError(children={alias: err})\n", "C10.R6", "field-location")
    mb.add_text("continuation-drops-kwargs", V, "                validate(obj, next_validators, kwargs, aliaser=aliaser)\n", "                validate(obj, next_validators, aliaser=aliaser)\n", "C10.R6", "continuation-args")
    mb.add_text("error-not-accumulated", V, "        error = merge_errors(error, err)\n", "        error = err\n", "C10.R", "")
    mb.add_text("object-mock-run-dropped", M, "                try:\n                    validate(\n                        ValidatorMock(self.constructor.cls, values),\n                        [\n                            v\n                            for v in validators\n                            if v.dependencies.isdisjoint(invalid_fields)\n                        ],\n                        init,\n                        aliaser=self.aliaser,\n                    )\n                except ValidationError as err:\n                    error = merge_errors(error, err)\n                raise error", "                raise error", "C10.R7", "mock-run")
    mb.add_text("object-invalid-fields-aliases", M, "                invalid_fields = self.post_init_modified | {\n                    field.name\n                    for field in self.fields\n                    if field_errors and field.alias in field_errors\n                }\n", "                invalid_fields = self.post_init_modified | (field_errors or {}).keys()\n", "C10.R7", "invalid-names")
    mb.add_text("object-invalid-fields-inplace", M, "                invalid_fields = self.post_init_modified | {\n                    field.name\n                    for field in self.fields\n                    if field_errors and field.alias in field_errors\n                }\n", "                invalid_fields = self.post_init_modified\n                invalid_fields |= {\n                    field.name\n                    for field in self.fields\n                    if field_errors and field.alias in field_errors\n                }\n", "C10.R7", "invalid-fields")
    mb.add_text("object-init-default-unguarded", M, "                    elif default_factory is not None:\n", "                    else:\n", "C10.R7", "init-from-default")
    mb.add_text("object-init-guard-flipped", M, "                    if name in values:\n                        init[name] = values[name]", "                    if name not in values:\n                        init[name] = values[name]", "C10.R7", "init-from-data")
    mb.add_text("object-selection-inverted", M, "                v for v in self.validators if not v.dependencies.isdisjoint(aliases)", "                v for v in self.validators if v.dependencies.isdisjoint(aliases)", "C10.R7", "selection")
    mb.add_text("object-real-run-no-init", M, "            return validate(obj, validators, init, aliaser=self.aliaser)", "            return validate(obj, validators, aliaser=self.aliaser)", "C10.R7", "real-args")
    mb.add_text("type-validators-not-merged", "apischema/deserialization/__init__.py", "            factory = factory.merge(get_constraints(get_schema(tp)), get_validators(tp))\n", "            factory = factory.merge(get_constraints(get_schema(tp)), ())\n", "C10.R8", "validators:type")
    mb.add_text("field-validators-not-merged", "apischema/deserialization/__init__.py", "                get_constraints(f.schema), f.validators\n", "                get_constraints(f.schema), ()\n", "C10.R8", "validators:field")
    mb.add_text("decorator-drops-discard", V, "        return lambda func: validator(func, field=field, discard=discard, owner=owner)  # type: ignore", "        return lambda func: validator(func, field=field, owner=owner)  # type: ignore", "C10.R9", "deferred")
    mb.add_text("field-validator-no-default-discard", V, "        if field is not None and discard is None:\n", "        if field is None and discard is None:\n", "C10.R9", "discard-default")
    mb.add_text("generator-errors-ignored", V, "                if errors:\n                    raise build_validation_error(errors)\n", "                if not errors:\n                    raise build_validation_error(errors)\n", "C10.R9", "generator")
    mb.add_text("dependencies-without-params", V, "        self.dependencies = find_all_dependencies(owner, self.func) | self.params\n", "        self.dependencies = find_all_dependencies(owner, self.func)\n", "C10.R9", "dependencies")
    mb.add_text("dependencies-memoised-under-guard", "apischema/validation/dependencies.py", "    if not rec_guard:\n        # inside a recursion, the result can be truncated by the recursion guard\n        cache[func] = dependencies\n", "    cache[func] = dependencies\n", "C10.R10", "memo-top-level")
    mb.add_text("validators-i", V, "validators[i + 1 :]", "validators[i:]", "C10.R1", "validate")
    mb.add_text("rec-build-no-slice", E, "_rec_build_error(path[1:], msg)", "_rec_build_error(path[0:], msg)", "C10.R1", "_rec_build_error")
    mb.add_text("apply-aliaser-self", E, "        child2 = apply_aliaser(child, aliaser)\n", "        child2 = apply_aliaser(error, aliaser)\n", "C10.R1", "apply_aliaser")
    mb.add_text("deps-no-guard", "apischema/validation/dependencies.py", "            if member in rec_guard:\n                continue\n", "", "C10.R1", "find_all_dependencies")
    mb.add_text("replace-error", V, "        error = merge_errors(error, err)\n        if validator.discard:", "        error = err\n        if validator.discard:", "C10.R3", "validate")
    mb.add_text("raise-only-last", V, "            except ValidationError as err:\n                raise merge_errors(error, err)\n", "            except ValidationError as err:\n                raise merge_errors(None, err)\n", "C10.R3", "validate")
    mb.add_text("break-on-first", V, "        error = merge_errors(error, err)\n        if validator.discard:", "        error = merge_errors(error, err)\n        if validator.field is not None:\n            break\n        if validator.discard:", "C10.R4", "validate")
    mb.add_text("construct-with-pending", M, "            if field_errors or errors:\n                error = ValidationError(errors or [], field_errors or {})", "            if errors:\n                error = ValidationError(errors or [], field_errors or {})", "C10.R2", "ObjectMethod")
    mb.add_text("object-no-merge", M, "                except ValidationError as err:\n                    error = merge_errors(error, err)\n                raise error", "                except ValidationError as err:\n                    error = err\n                raise error", "C10.R3", "ObjectMethod")
    # shape B of the discard logic with a non-monotone skip set (the shape of seeded change C10-a)
    mb.add_text("discard-loop-replace", V,
                "            try:\n                discarded = set(map(get_field_name, validator.discard))\n                next_validators = (\n                    v for v in validators[i + 1 :] if v.dependencies.isdisjoint(discarded)\n                )\n                validate(obj, next_validators, kwargs, aliaser=aliaser)\n            except ValidationError as err:\n                raise merge_errors(error, err)\n            else:\n                raise error\n",
                "            discarded = frozenset(map(get_field_name, validator.discard))\n", "C10.R5", "validate")
    mb.out[-1].new_src = mb.out[-1].new_src.replace("    for i, validator in enumerate(validators):\n", "    discarded = frozenset()\n    for i, validator in enumerate(validators):\n        if not validator.dependencies.isdisjoint(discarded):\n            continue\n")
    mb.add_text("neg-discard-loop-union", V,
                "            try:\n                discarded = set(map(get_field_name, validator.discard))\n                next_validators = (\n                    v for v in validators[i + 1 :] if v.dependencies.isdisjoint(discarded)\n                )\n                validate(obj, next_validators, kwargs, aliaser=aliaser)\n            except ValidationError as err:\n                raise merge_errors(error, err)\n            else:\n                raise error\n",
                "            discarded = discarded | frozenset(map(get_field_name, validator.discard))\n", negative=True)
    mb.out[-1].new_src = mb.out[-1].new_src.replace("    for i, validator in enumerate(validators):\n", "    discarded = frozenset()\n    for i, validator in enumerate(validators):\n        if not validator.dependencies.isdisjoint(discarded):\n            continue\n")
    mb.add_text("neg-slice-var", V, "                next_validators = (\n                    v for v in validators[i + 1 :] if v.dependencies.isdisjoint(discarded)\n                )\n",
                "                remaining = validators[i + 1 :]\n                next_validators = (\n                    v for v in remaining if v.dependencies.isdisjoint(discarded)\n                )\n", negative=True)
