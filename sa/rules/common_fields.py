"""Propositional model of field omission shared by C04 (serializer) and C07
(serializer vs. schema `required`): atoms, extraction of the flag expressions from
SerializationMethodVisitor.object and inlining of ObjectField predicates."""
import ast
from typing import Dict, List, Optional

from ..boolx import BoolEval, Unknown, single_return_expr, substitute
from ..model import AnalysisError
from ..util import dotted, norm, walk_no_nested
from .c11 import bind_args, init_params

SER_VISITOR = "apischema.serialization.SerializationMethodVisitor"
OBJ_FIELD = "apischema.objects.fields.ObjectField"
SMETH = "apischema.serialization.methods"

ATOMS = [
    "required", "has_factory", "dflt_undef", "dflt_none", "skip_if", "type_undef", "type_none", "nau",
    "skip_default_meta", "exclude_defaults", "exclude_none", "typed_dict", "exclude_unset", "aggregate",
]
TEXT_ATOMS = {
    "field.skip.serialization_if": "skip_if",
    "is_union_of(field.type, UndefinedType)": "type_undef",
    "is_union_of(field.type, NoneType)": "type_none",
    "field.none_as_undefined": "nau",
    "field.skip.serialization_default": "skip_default_meta",
    "self.exclude_defaults": "exclude_defaults",
    "self.exclude_none": "exclude_none",
    "settings.serialization.exclude_defaults": "exclude_defaults",
    "settings.serialization.exclude_none": "exclude_none",
    "typed_dict": "typed_dict",
    "is_typed_dict(get_origin_or_type(tp))": "typed_dict",
    "is_typed_dict(cls)": "typed_dict",
    "exclude_unset": "exclude_unset",
    "field_alias is None": "aggregate",
    "field.is_aggregate": "aggregate",
    "field_default is Undefined": "dflt_undef",
    "field_default is None": "dflt_none",
    "field.required": "required",
    "field.default_factory is not None": "has_factory",
    "field.get_default() is Undefined": "dflt_undef",
    "field.get_default() is None": "dflt_none",
}


def consistent(v: Dict[str, bool]) -> bool:
    if not v["required"] and not v["has_factory"]:
        return False  # a non-required field has a default (ObjectField.__post_init__)
    if v["dflt_undef"] and v["dflt_none"]:
        return False
    if (v["dflt_undef"] or v["dflt_none"]) and v["required"]:
        return False  # field_default is the `...` sentinel for required fields
    return True


class FieldModel:
    def __init__(self, model):
        self.model = model
        self.obj = model.func(f"{SER_VISITOR}.object")
        self.of = model.cls(OBJ_FIELD)
        fn = self.obj.node
        # the ComplexField(...) construction and its guarding `if`
        self.complex_call = None
        self.selection = None
        for n in walk_no_nested(fn):
            if isinstance(n, ast.If):
                for s in n.body:
                    for c in ast.walk(s):
                        if isinstance(c, ast.Call) and (dotted(c.func) or "").endswith("ComplexField"):
                            self.complex_call, self.selection = c, n
        if self.complex_call is None:
            raise AnalysisError("ComplexField construction not found in SerializationMethodVisitor.object")
        cf = model.cls(f"{SMETH}.ComplexField")
        self.params = init_params(model, cf)
        self.args = bind_args(self.params, self.complex_call)
        for need in ("skip_if", "undefined", "skip_none", "skip_default", "required", "typed_dict", "exclude_unset"):
            if need not in self.args:
                raise AnalysisError(f"ComplexField argument `{need}` not found at its construction site")
        # the alternative strategies must be the non-omitting ones
        self.else_classes = set()
        for s in ast.walk(ast.Module(body=self.selection.orelse, type_ignores=[])):
            if isinstance(s, ast.Call):
                nm = (dotted(s.func) or "").split(".")[-1]
                if nm.endswith("Field"):
                    self.else_classes.add(nm)
        # serialized methods
        self.serialized_call = None
        for c in walk_no_nested(fn):
            if isinstance(c, ast.Call) and (dotted(c.func) or "").endswith("SerializedField"):
                self.serialized_call = c
        if self.serialized_call is None:
            raise AnalysisError("SerializedField construction not found")
        sf = model.cls(f"{SMETH}.SerializedField")
        self.sparams = init_params(model, sf)
        self.sargs = bind_args(self.sparams, self.serialized_call)
        self._keep = []  # substituted ASTs must stay alive: closures are cached by node identity
        self._skippable = {}
        # single-assignment locals of object() that are not atoms themselves can be followed
        locals_ = {}
        counts = {}
        for n in walk_no_nested(fn):
            if isinstance(n, ast.Assign) and len(n.targets) == 1 and isinstance(n.targets[0], ast.Name):
                counts[n.targets[0].id] = counts.get(n.targets[0].id, 0) + 1
                locals_[n.targets[0].id] = n.value
        locals_ = {k: v for k, v in locals_.items() if counts[k] == 1 and k not in TEXT_ATOMS}
        self.evaluator = BoolEval(dict(TEXT_ATOMS), locals_, self.inline, self.special)

    # ------------------------------------------------------------------
    def special(self, e, val):
        t = norm(e)
        if t in ("field_default not in (None, Undefined)", "field_default not in (Undefined, None)"):
            return lambda v: not v["dflt_none"] and not v["dflt_undef"]
        if t in ("field_default in (None, Undefined)", "field_default in (Undefined, None)"):
            return lambda v: v["dflt_none"] or v["dflt_undef"]
        return None

    def inline(self, e, ev: BoolEval, val):
        # field.skippable(a, b)
        if isinstance(e, ast.Call) and isinstance(e.func, ast.Attribute) and isinstance(e.func.value, ast.Name) and e.func.value.id == "field":
            m = self.of.methods.get(e.func.attr)
            if m is None:
                return None
            params = [p for p in m.params if p != "self"]
            mapping = {"self": ast.Name(id="field", ctx=ast.Load())}
            for p, a in zip(params, e.args):
                mapping[p] = a
            body = substitute(single_return_expr(m.node), mapping)
            self._keep.append(body)
            return ev.compile(body)
        if isinstance(e, ast.Attribute) and isinstance(e.value, ast.Name) and e.value.id == "field":
            m = self.of.methods.get(e.attr)
            if m is not None and "property" in m.decorators:
                body = substitute(single_return_expr(m.node), {"self": ast.Name(id="field", ctx=ast.Load())})
                self._keep.append(body)
                return ev.compile(body)
        return None

    def ev(self, e, val) -> bool:
        return bool(self.evaluator.ev(e, val))

    # derived quantities ------------------------------------------------
    def flags(self, val) -> Dict[str, bool]:
        return {k: self.ev(self.args[k], val) for k in ("skip_if", "undefined", "skip_none", "skip_default")}

    def complex_selected(self, val) -> bool:
        return self.ev(self.selection.test, val)

    @staticmethod
    def effective(flags, val) -> Dict[str, bool]:
        """a flag can only cause an omission if the value it compares with can occur"""
        return {
            "skip_if": flags["skip_if"],
            "undefined": flags["undefined"] and (val["type_undef"] or val["dflt_undef"]),
            "skip_none": flags["skip_none"] and (val["type_none"] or val["nau"] or val["dflt_none"]),
            "skip_default": flags["skip_default"] and not val["required"],
        }

    def skippable(self, val, default_atom="exclude_defaults", none_atom="exclude_none") -> bool:
        key = (default_atom, none_atom)
        if key not in self._skippable:
            m = self.of.methods["skippable"]
            mapping = {"self": ast.Name(id="field", ctx=ast.Load()),
                       "default": ast.parse(f"self.{default_atom}", mode="eval").body,
                       "none": ast.parse(f"self.{none_atom}", mode="eval").body}
            self._skippable[key] = substitute(single_return_expr(m.node), mapping)
        return self.ev(self._skippable[key], val)
