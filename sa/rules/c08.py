"""C08 - options that are optimizations never change results.

Decides: check-only nodes return their input (return-transparency); discarding
variants are selected only under check_only(child) and the no-copy / pass-through
predicate; the optimised object node is selected only when everything the general
node does in addition is forced neutral (read-set difference + predicate
valuations); the raw dataclass constructor is used only when every mechanism it
bypasses is absent; deserialize / serialize forward every option; tri-state options
are defaulted with `is None`; nodes do not mutate their input.
"""
import ast
from typing import Dict, List, Optional, Set

from ..boolx import BoolEval, Unknown, show, valuations
from ..model import AnalysisError, FuncInfo
from ..nodes import DESER_MOD, SER_MOD, deser_nodes, own_methods, ser_nodes
from ..util import dotted, flatten_boolop, names_in, norm, short, walk_no_nested
from ..visitors import classify_impl
from .c03 import mutation_rule
from .c11 import bind_args, init_params

DES = "apischema.deserialization"
SER = "apischema.serialization"
DVIS = f"{DES}.DeserializationMethodVisitor"
SVIS = f"{SER}.SerializationMethodVisitor"


# --------------------------------------------------------------------------- R1
def tuple_names(model, modname: str, name: str) -> List[str]:
    v = model.module_value(modname, name)
    if not isinstance(v, ast.Tuple):
        raise AnalysisError(f"{modname}.{name} is not a tuple literal")
    return [dotted(e) for e in v.elts]


def check_only_disjuncts(model, modname: str) -> Dict[str, str]:
    """class name -> normalised text of its disjunct in check_only()"""
    fi = model.func(f"{modname}.check_only")
    ret = [n for n in walk_no_nested(fi.node) if isinstance(n, ast.Return)]
    if len(ret) != 1:
        raise AnalysisError(f"{modname}.check_only is not a single return")
    out = {}
    for d in flatten_boolop(ret[0].value, ast.Or):
        conj = flatten_boolop(d, ast.And)
        head = conj[0]
        if isinstance(head, ast.Call) and dotted(head.func) == "isinstance" and len(head.args) == 2:
            classes = head.args[1].elts if isinstance(head.args[1], ast.Tuple) else [head.args[1]]
            for c in classes:
                cname = dotted(c)
                if cname:
                    out[cname] = norm(d)
    return out


def classify_returns(model, fi: FuncInfo, param: str, child_verb: str):
    """[(return node, kind, detail)] kinds: param | none | child:<attr> | vc | fallback | coercer | other"""
    fn = fi.node
    rebound = any(isinstance(n, ast.Name) and n.id == param and isinstance(n.ctx, ast.Store) for n in walk_no_nested(fn))
    parents = {c: p for p in ast.walk(fn) for c in ast.iter_child_nodes(p)}
    # locals bound from self.<attr> (loop variables over self.xs, method = self.d[...])
    origin: Dict[str, str] = {}
    for n in walk_no_nested(fn):
        if isinstance(n, (ast.For,)):
            src = n.iter.args[0] if isinstance(n.iter, ast.Call) and dotted(n.iter.func) == "enumerate" and n.iter.args else n.iter
            t = n.target.elts[-1] if isinstance(n.target, ast.Tuple) else n.target
            a = attr_of_self(src)
            if a and isinstance(t, ast.Name):
                origin[t.id] = a
        if isinstance(n, (ast.Assign, ast.AnnAssign)):
            t = n.targets[0] if isinstance(n, ast.Assign) else n.target
            a = attr_of_self(n.value)
            if a and isinstance(t, ast.Name):
                origin[t.id] = a

    def kind_of(e) -> tuple:
        if isinstance(e, ast.Name) and e.id == param:
            return ("param" if not rebound else "other", "")
        if isinstance(e, ast.Constant) and e.value is None:
            return ("none", "")
        if isinstance(e, ast.IfExp):
            ks = [kind_of(e.body), kind_of(e.orelse)]
            for k in ks:
                if k[0] not in ("param", "none") and not k[0].startswith("child") and k[0] != "fallback":
                    return k
            worst = [k for k in ks if k[0] == "fallback"] or [k for k in ks if k[0].startswith("child")] or ks
            return worst[0]
        if isinstance(e, ast.Call):
            f = e.func
            if isinstance(f, ast.Attribute) and f.attr == child_verb and e.args and isinstance(e.args[0], ast.Name) and e.args[0].id == param:
                recv = f.value
                if isinstance(recv, ast.Call) and isinstance(recv.func, ast.Name) and recv.func.id == "super":
                    return ("child:super", "")
                a = attr_of_self(recv) or (origin.get(recv.id) if isinstance(recv, ast.Name) else None)
                return (f"child:{a}" if a else "other", "")
            if (dotted(f) or "").endswith("validate_constraints") and e.args:
                return kind_of(e.args[0])
            if isinstance(f, ast.Attribute) and norm(f.value) == "self.fallback":
                return ("fallback", "")
        return ("other", "")

    out = []
    for n in walk_no_nested(fn):
        if isinstance(n, ast.Return):
            k, d = kind_of(n.value) if n.value is not None else ("none", "")
            # a `return None` guarded by a test on self.coercer
            guards = []
            p = parents.get(n)
            while p is not None and p is not fn:
                if isinstance(p, ast.If):
                    guards.append(norm(p.test))
                p = parents.get(p)
            if k == "none" and any("self.coercer" in g for g in guards):
                k = "coercer"
            elif k == "none" and not any(f"{param} is None" in g or f"{param} is not None" in g for g in guards) and not isinstance(n.value, ast.IfExp):
                k = "none-unguarded" if n.value is not None and not isinstance(n.value, ast.Constant) else k
            out.append((n, k, guards))
    return out


def attr_of_self(e) -> Optional[str]:
    while isinstance(e, (ast.Subscript,)):
        e = e.value
    if isinstance(e, ast.Call) and isinstance(e.func, ast.Attribute) and e.func.attr in ("values", "items", "keys"):
        e = e.func.value
    if isinstance(e, ast.Attribute):
        base = e
        while isinstance(base.value, ast.Attribute):
            base = base.value
        if isinstance(base.value, ast.Name) and base.value.id in ("self", "alternative", "alt"):
            return base.attr if base.value.id == "self" else e.attr
    return None


def rule_transparency(ctx, side: str):
    model = ctx.model
    modname = DES if side == "deser" else SER
    base_mod = DESER_MOD if side == "deser" else SER_MOD
    param = "data" if side == "deser" else "obj"
    verb = "deserialize" if side == "deser" else "serialize"
    listed = tuple_names(model, modname, "CHECK_ONLY_METHODS")
    disj = check_only_disjuncts(model, modname)
    rule = "C08.R1"
    base = f"{base_mod}.{'DeserializationMethod' if side == 'deser' else 'SerializationMethod'}"
    # validate_constraints must return its first parameter (summary used below)
    if side == "deser":
        vc = model.func(f"{DESER_MOD}.validate_constraints")
        rets = [n for n in walk_no_nested(vc.node) if isinstance(n, ast.Return)]
        ctx.check(all(isinstance(r.value, ast.Name) and r.value.id == vc.params[0] for r in rets) and rets, rule, vc.qualname, rets[0] if rets else vc.node,
                  "validate_constraints no longer returns its first argument unchanged", vc, vc.node, detail="returns `data`")
    nofb = model.cls(f"{SER_MOD}.NoFallback").methods["fall_back"] if side == "ser" else None
    if nofb is not None:
        ctx.check(classify_impl(nofb).startswith("rejects"), rule, nofb.qualname, nofb.node.body[0], "NoFallback.fall_back must only raise: it is what makes type-check / union nodes check-only", nofb, nofb.node, detail="only raises")
    for cname in listed:
        q = f"{base_mod}.{cname}"
        ctx.require(q in model.classes, f"CHECK_ONLY_METHODS names unknown class {cname}")
        for sub in model.subclasses(q):
            m = model.find_method(sub, verb)
            for ret, kind, _ in classify_returns(model, m, param, verb):
                ok = kind in ("param", "child:super")
                ctx.check(ok, rule, f"{model.classes[sub].name}.{verb}", ret,
                          f"{model.classes[sub].name} is in CHECK_ONLY_METHODS (isinstance also matches subclasses) but `{short(ret, 60)}` does not return the input unchanged ({kind}): "
                          f"containers that only check their elements would discard this result",
                          m, ret, detail=f"returns the parameter ({kind})")
    for cname, text in disj.items():
        if isinstance(cname, str) and cname in ("CHECK_ONLY_METHODS",):
            continue
        q = f"{base_mod}.{cname}"
        if q not in model.classes:
            continue
        if not model.is_subclass(q, base):
            ctx.fail(rule, f"check_only[{cname}]", None, f"check_only() has a disjunct starting with isinstance(..., {cname}), which is not a node class: the predicate no longer has the shape (node class and its conditions) per disjunct", model.classes[q].module.relpath, model.classes[q].node.lineno)
            continue
        for sub in model.subclasses(q):
            m = model.find_method(sub, verb)
            if m is None:
                continue
            for ret, kind, guards in classify_returns(model, m, param, verb):
                ok, why = True, kind
                if kind in ("param", "none"):
                    pass
                elif kind.startswith("child:"):
                    attr = kind.split(":", 1)[1]
                    ok = attr == "super" or (f"method.{attr}" in text and "check_only" in text)
                    why = f"returns the result of child `{attr}`, which the disjunct does not require to be check-only"
                elif kind == "fallback":
                    ok = "isinstance(method.fallback, NoFallback)" in text
                    why = "returns the fallback's result; with AnyFallback the mistyped object is *serialized*, i.e. transformed - the disjunct must require NoFallback"
                elif kind == "coercer":
                    ok = "method.coercer is None" in text
                    why = "returns None for a coerced datum; the disjunct must require `method.coercer is None`"
                else:
                    ok = False
                    why = f"returns a value that is neither the input nor a child's result ({kind})"
                ctx.check(ok, rule, f"check_only[{cname}]:{model.classes[sub].name}.{verb}", ret,
                          f"check_only() accepts {cname} under `{short(text, 110)}` but `{short(ret, 60)}` {why}",
                          m, ret, detail=f"{kind} covered by the disjunct")
    # a class returning a fresh value must not be listed
    return listed, disj


# --------------------------------------------------------------------------- R2
def discarding_classes(model, side: str) -> Dict[str, FuncInfo]:
    verb = "deserialize" if side == "deser" else "serialize"
    pairs = deser_nodes(model) if side == "deser" else ser_nodes(model)
    out = {}
    for cls, m in pairs:
        if m.cls is not cls:
            continue
        for n in walk_no_nested(m.node):
            if isinstance(n, ast.Expr) and isinstance(n.value, ast.Call) and isinstance(n.value.func, ast.Attribute) and n.value.func.attr == verb:
                out[cls.name] = m
    return out


def enclosing_conjuncts(fn, node) -> List[str]:
    parents = {c: p for p in ast.walk(fn) for c in ast.iter_child_nodes(p)}
    out = []
    child = node
    p = parents.get(node)
    while p is not None and p is not fn:
        if isinstance(p, ast.If):
            if any(child is s or any(child is x for x in ast.walk(s)) for s in p.body):
                out += [norm(c) for c in flatten_boolop(p.test, ast.And)]
            else:
                out.append("not (" + norm(p.test) + ")")
        if isinstance(p, ast.IfExp) and child is p.body:
            out += [norm(c) for c in flatten_boolop(p.test, ast.And)]
        child = p
        p = parents.get(p)
    return out


def rule_discarding(ctx):
    model = ctx.model
    rule = "C08.R2"
    want = {"deser": {"ListCheckOnlyMethod", "MappingCheckOnly", "SimpleObjectMethod"}, "ser": {"CollectionCheckOnlyMethod", "MappingCheckOnlyMethod", "TupleCheckOnlyMethod"}}
    for side, vis in (("deser", DVIS), ("ser", SVIS)):
        disc = discarding_classes(model, side)
        ctx.require(len(want[side] & set(disc)) >= 2, f"discarding node classes changed on the {side} side: {sorted(disc)}")
        if not want[side] <= set(disc):
            ctx.note(f"{side}: {sorted(want[side] - set(disc))} no longer discard child results (rule R2 does not apply to them any more)")
        for fi in model.functions.values():
            if not fi.qualname.startswith(vis + "."):
                continue
            locals_: Dict[str, ast.AST] = {}
            g = fi
            while g is not None:
                for n in walk_no_nested(g.node):
                    if isinstance(n, ast.Assign) and isinstance(n.targets[0], ast.Name):
                        locals_.setdefault(n.targets[0].id, n.value)
                g = g.parent
            for c in walk_no_nested(fi.node):
                if not isinstance(c, ast.Call):
                    continue
                cname = (dotted(c.func) or "").split(".")[-1]
                if cname not in disc:
                    continue
                conj = enclosing_conjuncts(fi.node, c)
                # expand `passthrough` style locals one level
                expanded = list(conj)
                for t in conj:
                    if t in locals_:
                        expanded.append(norm(locals_[t]))
                problems = []
                if cname == "SimpleObjectMethod" and side == "deser":
                    if not any("check_only(f.method)" in t for t in conj):
                        problems.append("no check_only(f.method) requirement on the fields")
                    if "not is_typed_dict(cls) or self.no_copy" not in conj:
                        problems.append("a TypedDict is returned as the input dict itself: `not is_typed_dict(cls) or self.no_copy` is required")
                else:
                    for a in c.args:
                        an = norm(a)
                        if isinstance(a, ast.Name) and ("method" in a.id):
                            # single child method, or a tuple of methods
                            if f"check_only({an})" not in conj and f"all(map(check_only, {an}))" not in conj:
                                problems.append(f"`{an}` is not required to be check-only although its results are discarded")
                    if side == "deser":
                        if "self.no_copy" not in conj:
                            problems.append("returns the input container itself without requiring self.no_copy")
                    else:
                        if cname == "TupleCheckOnlyMethod":
                            if "self.pass_through_options.tuple" not in conj:
                                problems.append("returns the input tuple itself without the tuple pass-through option")
                        elif "passthrough" not in conj or "self.no_copy" not in " ".join(expanded):
                            problems.append("returns the input container itself without the pass-through / no_copy predicate")
                ctx.check(not problems, rule, f"{fi.qualname}:{cname}", c, f"{cname} discards its children's results / returns its input, but " + "; ".join(problems), fi, c,
                          detail="guarded by check_only(children) and the no-copy predicate")

    # leaf nodes returning a mutable datum as is (no child whose result could be discarded): same no-copy requirement
    from ..accept import accept_set
    disc_d = set(discarding_classes(model, "deser"))
    for m in own_methods(deser_nodes(model)):
        cname = m.cls.name if m.cls is not None else ""
        if cname in disc_d or classify_impl(m) == "abstract" or not m.params or len(m.params) < 2:
            continue
        dparam = m.params[1]
        has_child = any(isinstance(c, ast.Call) and isinstance(c.func, ast.Attribute) and c.func.attr == "deserialize" for c in walk_no_nested(m.node))
        returns_input = any(isinstance(r, ast.Return) and isinstance(r.value, ast.Name) and r.value.id == dparam for r in walk_no_nested(m.node))
        if has_child or not returns_input:
            continue
        try:
            acc = accept_set(model, m.cls.qualname)
        except Exception:
            continue
        if not ({"list", "dict"} & set(acc)):
            continue
        for fi in model.functions.values():
            if not fi.qualname.startswith(DVIS + "."):
                continue
            for c in walk_no_nested(fi.node):
                if isinstance(c, ast.Call) and (dotted(c.func) or "").split(".")[-1] == cname:
                    conj = enclosing_conjuncts(fi.node, c)
                    reads_flag = "self.no_copy" in conj or any(norm(a) == "self.no_copy" for a in list(c.args) + [k.value for k in c.keywords])
                    ctx.check(reads_flag, rule, f"{fi.qualname}:{cname}", None,
                              f"{cname} returns the datum itself, lists and objects included, and is built without consulting no_copy: with no_copy=False the result shares its mutable containers with the input (deserialize(Any, d, no_copy=False) is d)",
                              fi, c, detail="built under self.no_copy, or given the flag")


# --------------------------------------------------------------------------- R3
def self_reads(fn) -> Set[str]:
    return {n.attr for n in walk_no_nested(fn, include_lambda=True) if isinstance(n, ast.Attribute) and isinstance(n.value, ast.Name) and n.value.id == "self" and isinstance(n.ctx, ast.Load)}


def var_attr_reads(fn, var: str) -> Set[str]:
    return {n.attr for n in walk_no_nested(fn, include_lambda=True) if isinstance(n, ast.Attribute) and isinstance(n.value, ast.Name) and n.value.id == var}


def rule_sibling(ctx):
    model = ctx.model
    rule = "C08.R3"
    gen = model.func(f"{DESER_MOD}.ObjectMethod.deserialize")
    opt = model.func(f"{DESER_MOD}.SimpleObjectMethod.deserialize")
    gen_only = self_reads(gen.node) - self_reads(opt.node)
    fld_only = var_attr_reads(gen.node, "field") - var_attr_reads(opt.node, "field")
    factory = model.func(f"{DVIS}.object.<locals>.factory")
    # constructions
    simple_call = general_call = None
    for c in walk_no_nested(factory.node):
        if isinstance(c, ast.Call):
            nm = (dotted(c.func) or "").split(".")[-1]
            if nm == "SimpleObjectMethod":
                simple_call = c
            elif nm == "ObjectMethod":
                general_call = c
    ctx.require(simple_call is not None and general_call is not None, "object node constructions not found")
    gparams = init_params(model, model.cls(f"{DESER_MOD}.ObjectMethod"))
    gargs = bind_args(gparams, general_call)
    sel = None
    parents = {c: p for p in ast.walk(factory.node) for c in ast.iter_child_nodes(p)}
    p = parents.get(simple_call)
    while p is not None:
        if isinstance(p, ast.If):
            sel = p
            break
        p = parents.get(p)
    ctx.require(sel is not None, "selection of SimpleObjectMethod not found")
    atoms = {"is_typed_dict(cls)": "typed_dict", "self.no_copy": "no_copy", "check_only(f.method)": "check_only", "f.alias == f.name": "alias_is_name",
             "f.fall_back_on_default": "fbod", "f.required_by": "required_by"}
    arg_atom = {}
    for pname in sorted(gen_only):
        if pname in gargs:
            ga = gargs[pname]
            while isinstance(ga, ast.Call) and dotted(ga.func) in ("tuple", "list", "set", "frozenset") and len(ga.args) == 1:
                ga = ga.args[0]
            t = norm(ga)
            arg_atom[pname] = t
            atoms.setdefault(t, f"A:{pname}")
    be = BoolEval(atoms)
    names = sorted(set(atoms.values()))
    try:
        sat = [v for v in valuations(names) if be.ev(sel.test, v)]
    except Unknown as err:
        raise AnalysisError(f"C08.R3: selection predicate of SimpleObjectMethod: {err}")
    ctx.require(sat, "SimpleObjectMethod selection is unsatisfiable?")
    # attributes only read under `if self.validators`
    gparents = {c: p for p in ast.walk(gen.node) for c in ast.iter_child_nodes(p)}

    def only_under(attr: str, guard: str) -> bool:
        for n in walk_no_nested(gen.node, include_lambda=True):
            if isinstance(n, ast.Attribute) and n.attr == attr and isinstance(n.value, ast.Name) and n.value.id == "self":
                q = gparents.get(n)
                ok = False
                while q is not None and q is not gen.node:
                    if isinstance(q, ast.If) and norm(q.test) == guard:
                        ok = True
                    q = gparents.get(q)
                if not ok:
                    return False
        return True
    pi = model.cls(f"{DESER_MOD}.ObjectMethod").methods.get("__post_init__")
    derived = set()
    if pi is not None:
        for n in walk_no_nested(pi.node):
            if isinstance(n, ast.Assign) and isinstance(n.targets[0], ast.Attribute) and norm(n.targets[0].value) == "self":
                if self_reads(pi.node) <= gen_only | {n.targets[0].attr}:
                    derived.add(n.targets[0].attr)
    for attr in sorted(gen_only):
        construct = f"SimpleObjectMethod-vs-ObjectMethod:self.{attr}"
        if attr in derived:
            ctx.ok(rule, construct, "derived in __post_init__ from attributes that are themselves forced neutral", where=gen.loc)
            continue
        if attr not in arg_atom:
            ctx.fail(rule, construct, None, f"ObjectMethod reads self.{attr}, SimpleObjectMethod does not, and the attribute is not a constructor argument the selection could constrain", gen.module.relpath, gen.node.lineno)
            continue
        a = f"A:{attr}"
        if all(not v[a] for v in sat):
            ctx.ok(rule, construct, f"selection forces `{arg_atom[attr]}` to be empty / false", where=factory.loc)
            continue
        if only_under(attr, "self.validators") and all(not v.get("A:validators", True) for v in sat):
            ctx.ok(rule, construct, "only read under `if self.validators`, and validators are forced empty", where=gen.loc)
            continue
        # functionally determined by what the optimised node itself reads?
        opt_atoms = [x for x in ("typed_dict",) if x in names]
        groups: Dict[tuple, Set[bool]] = {}
        for v in sat:
            groups.setdefault(tuple(v[x] for x in opt_atoms), set()).add(v[a])
        determined = all(len(s) == 1 for s in groups.values())
        witness = None
        if not determined:
            for v in sat:
                k = tuple(v[x] for x in opt_atoms)
                if len(groups[k]) > 1:
                    witness = v
                    break
        ctx.check(determined, rule, construct, sel.test,
                  (f"ObjectMethod's behaviour depends on `{arg_atom[attr]}`, which SimpleObjectMethod ignores; the selection `{short(sel.test, 140)}` admits both values of it "
                   f"for the same {opt_atoms} (e.g. with [{show(witness)}]): the fast path gives a different result than the general one") if witness else "",
                  factory, sel, detail=f"`{arg_atom[attr]}` is a function of {opt_atoms} under the selection")
    for attr in sorted(fld_only):
        construct = f"SimpleObjectMethod-vs-ObjectMethod:field.{attr}"
        if attr == "name":
            ok = all(v["alias_is_name"] for v in sat)
            ctx.check(ok, rule, construct, sel.test, "SimpleObjectMethod passes the input dict (keyed by alias) to the constructor: the selection must require alias == name for every field", factory, sel, detail="f.alias == f.name")
        elif attr == "required_by":
            ok = all(not v["required_by"] for v in sat)
            ctx.check(ok, rule, construct, sel.test, "SimpleObjectMethod does not implement dependentRequired: the selection must require `not f.required_by`", factory, sel, detail="not f.required_by")
        else:
            ctx.fail(rule, construct, None, f"ObjectMethod reads field.{attr} and SimpleObjectMethod does not: add the neutrality requirement to the checker after confirming it", gen.module.relpath, gen.node.lineno)
    ctx.check(all(v["check_only"] for v in sat), rule, "SimpleObjectMethod:check_only", sel.test, "selection does not require check-only field methods", factory, sel, detail="check_only(f.method)")
    ctx.check(all(not v["fbod"] for v in sat), rule, "SimpleObjectMethod:fall_back_on_default", sel.test,
              "SimpleObjectMethod hands the raw input dict to the constructor: a field that falls back on its default would pass its invalid value through; the selection must exclude fall_back_on_default", factory, sel, detail="not f.fall_back_on_default")
    ctx.extra["simple_object_selection_models"] = len(sat)
    # serialization pair
    sobj = model.func(f"{SVIS}.object")
    sc = [c for c in walk_no_nested(sobj.node) if isinstance(c, ast.Call) and (dotted(c.func) or "").endswith("SimpleObjectMethod")]
    ctx.require(len(sc) == 1, "serialization SimpleObjectMethod construction not found")
    conj = enclosing_conjuncts(sobj.node, sc[0])
    want = "not (not all((isinstance(f, IdentityField) and f.alias == f.name for f in base_fields)))"
    ok = any("isinstance(f, IdentityField) and f.alias == f.name" in t and t.startswith("not (not all") for t in conj)
    ctx.check(ok, rule, f"{sobj.qualname}:SimpleObjectMethod", sc[0], "serialization SimpleObjectMethod ({name: getattr(obj, name)}) is not restricted to identity fields whose alias is their name", sobj, sc[0], detail="all(IdentityField and alias == name)")
    idc = [n for n in walk_no_nested(sobj.node) if isinstance(n, ast.Assign) and norm(n.value) == "IDENTITY_METHOD"]
    for n in idc:
        cj = enclosing_conjuncts(sobj.node, n)
        ok = "is_dataclass(cls)" in cj and "self.pass_through_options.dataclasses" in cj and "not self._has_skipped_field" in cj
        ctx.check(ok, rule, f"{sobj.qualname}:IDENTITY", n, "object pass-through (IDENTITY_METHOD) selected without the dataclasses pass-through option / with skipped fields", sobj, n, detail="dataclass & pass_through.dataclasses & no skipped field")


# --------------------------------------------------------------------------- R4
BYPASS_ROWS = {
    "dataclasses.is_dataclass(cls)": "only dataclasses have the field list used to fill __dict__",
    "type(cls) is type": "metaclass __call__ is bypassed by object.__new__",
    "'__slots__' not in cls.__dict__": "instances with __slots__ have no __dict__",
    "not hasattr(cls, '__post_init__')": "__post_init__ is not called",
    "all((f.init for f in dataclasses.fields(cls)))": "init=False fields are not initialised by __dict__.update",
    "cls.__new__ is object.__new__": "a custom __new__ is bypassed",
    "cls.__setattr__ is object.__setattr__": "a custom __setattr__ is bypassed (frozen dataclasses excepted)",
    "inspect.signature(cls.__init__": "a hand-written __init__ (or InitVar parameters) is bypassed",
}


def rule_raw_constructor(ctx):
    model = ctx.model
    rule = "C08.R4"
    ird = model.func(f"{DES}.is_raw_dataclass")
    text = norm(ird.node)
    for frag, why in BYPASS_ROWS.items():
        ctx.check(frag in text, rule, f"is_raw_dataclass:{frag[:40]}", ird.node.body[0], f"is_raw_dataclass lost the test `{frag}`: {why}, so results would depend on override_dataclass_constructors", ird, ird.node, detail=why)
    fc = model.func(f"{DESER_MOD}.FieldsConstructor.construct")
    t = norm(fc.node)
    ctx.check("object.__new__(self.cls)" in t and "__dict__" in t, rule, fc.qualname, fc.node.body[0], "FieldsConstructor no longer builds the instance with object.__new__ + __dict__: the bypass table must be re-derived", fc, fc.node, detail="object.__new__ + __dict__.update")
    factory = model.func(f"{DVIS}.object.<locals>.factory")
    for c in walk_no_nested(factory.node):
        if isinstance(c, ast.Call) and (dotted(c.func) or "").endswith("FieldsConstructor"):
            cj = enclosing_conjuncts(factory.node, c)
            ok = "is_raw_dataclass(cls)" in cj and "settings.deserialization.override_dataclass_constructors" in cj
            ctx.check(ok, rule, f"{factory.qualname}:FieldsConstructor", c, "FieldsConstructor selected without is_raw_dataclass(cls) and the override_dataclass_constructors setting", factory, c, detail="guarded by the setting and is_raw_dataclass")
            args = bind_args(init_params(model, model.cls(f"{DESER_MOD}.FieldsConstructor")), c)
            # nb_fields decides whether defaults are completed: it must count the universe the default / factory
            # tuples range over (every attribute the generated __init__ would set), not this operation's fields
            universes = set()
            for pname in ("default_fields", "factory_fields"):
                a = args.get(pname)
                gen = next((g for g in ast.walk(a) if isinstance(g, ast.GeneratorExp)), None) if a is not None else None
                universes.add(norm(gen.generators[0].iter) if gen is not None else "?")
            u = universes.pop() if len(universes) == 1 else "?"
            ctx.check(u != "?" and "dataclasses.fields(" in u and norm(args.get("nb_fields")) == f"len({u})", rule, f"{factory.qualname}:nb_fields", c,
                      f"FieldsConstructor.nb_fields is `{norm(args.get('nb_fields'))}` while the defaults range over `{u}`: when the counts differ (a field skipped for deserialization) the completion of defaults is skipped and the instance lacks an attribute",
                      factory, c, detail=f"len({u})")
    # construct(): a default is stored exactly for the names missing from the values
    from ..boolx import BoolEval, Unknown
    from ..pathcond import complements, parents_of, path_condition
    parents = parents_of(fc.node)
    ev = BoolEval(complements({"len(fields) != self.nb_fields": "mismatch", "self.nb_fields != len(fields)": "mismatch",
                               "default_field.name not in obj_dict": "!present", "factory_field.name not in obj_dict": "!present",
                               "default_field.name not in fields": "!present", "factory_field.name not in fields": "!present"}))
    stores = [a for a in ast.walk(fc.node) if isinstance(a, ast.Assign) and isinstance(a.targets[0], ast.Subscript) and norm(a.targets[0].slice) in ("default_field.name", "factory_field.name")]
    ctx.check(len(stores) == 2, rule, f"{fc.qualname}:stores", fc.node.body[0], "FieldsConstructor.construct no longer completes both plain defaults and default factories", fc, fc.node, detail="2 completion sites")
    for a in stores:
        kind = norm(a.targets[0].slice).split("_")[0]
        try:
            got = ev.compile(path_condition(fc.node, a, parents))
            bad = [p for p in (True, False) if bool(got({"mismatch": True, "present": p})) != (not p)]
        except Unknown as err:
            ctx.undecided(rule, f"{fc.qualname}:{kind}: {err}")
            continue
        ctx.check(not bad, rule, f"{fc.qualname}:{kind}-completion", a, f"`{short(a, 60)}` is not executed exactly when the name is absent from the deserialized values", fc, a, detail="stored iff name not in values")
        want = "default_field.default_value" if kind == "default" else "factory_field.factory()"
        ctx.check(norm(a.value) == want, rule, f"{fc.qualname}:{kind}-value", a, f"the completed value is `{norm(a.value)}`, expected `{want}`", fc, a, detail=want)


# --------------------------------------------------------------------------- R5
def rule_forwarding(ctx):
    model = ctx.model
    rule = "C08.R5"
    for modq, outer, inner, factory, visitor in ((DES, "deserialize", "deserialization_method", "deserialization_method_factory", DVIS), (SER, "serialize", "serialization_method", "serialization_method_factory", SVIS)):
        fo, fi_, ff = model.func(f"{modq}.{outer}"), model.func(f"{modq}.{inner}"), model.func(f"{modq}.{factory}")
        ko = [a.arg for a in fo.node.args.kwonlyargs]
        ki = [a.arg for a in fi_.node.args.kwonlyargs]
        ctx.check(set(ko) == set(ki), rule, f"{outer}:signature", fo.node, f"{outer} and {inner} accept different options: {sorted(set(ko) ^ set(ki))}", fo, fo.node, detail=f"{len(ko)} keyword-only options on both")
        call = None
        for c in model.calls_in(fo):
            if dotted(c.func) == inner:
                call = c
        ctx.require(call is not None, f"{outer} does not call {inner}")
        passed = {k.arg: norm(k.value) for k in call.keywords}
        for k in ko:
            ctx.check(passed.get(k) == k, rule, f"{outer}->{inner}:{k}", call, f"{outer} passes `{k}={passed.get(k)}` to {inner}: the option is dropped or crossed, so the one-shot function behaves differently from the precomputed method", fo, call, detail=f"{k}={k}")
        # inner: every option reaches the factory call / merge
        fcall = None
        for c in model.calls_in(fi_):
            if dotted(c.func) == factory:
                fcall = c
        ctx.require(fcall is not None, f"{inner} does not call {factory}")
        used = set()
        for n in walk_no_nested(fi_.node):
            if isinstance(n, ast.Name) and isinstance(n.ctx, ast.Load):
                used.add(n.id)
        for k in ki:
            ctx.check(k in used, rule, f"{inner}:{k}", fi_.node, f"option `{k}` of {inner} is never read", fi_, fi_.node, detail="read")
        fparams = ff.params
        for i, a in enumerate(fcall.args):
            ctx.require(i < len(fparams), f"{factory} call has more arguments than parameters")
            p = fparams[i]
            an = names_in(a)
            alias_ok = {"tp": {"type"}, "coercer": {"coercer"}, "pass_through": {"pass_through"}}
            ok = p in an or bool(alias_ok.get(p, set()) & an) or isinstance(a, ast.Constant)
            ctx.check(ok, rule, f"{inner}->{factory}:{p}", a, f"argument #{i} of {factory} (parameter `{p}`) is `{short(a, 60)}`: crossed options", fi_, a, detail=f"{p} <- {short(a, 50)}")
            if isinstance(a, ast.Call) and dotted(a.func) == "opt_or" and len(a.args) == 2:
                direction = "deserialization" if modq == DES else "serialization"
                ctx.check(norm(a.args[1]) in (f"settings.{p}", f"settings.{direction}.{p}"), rule, f"{inner}:default-of-{p}", a,
                          f"`{p}` defaults to `{norm(a.args[1])}` instead of `settings.{direction}.{p}` (or the top-level setting): wrong setting", fi_, a, detail=norm(a.args[1]))
        # factory -> visitor constructor: same names in the same order
        vinit = model.find_method(visitor, "__init__")
        vparams = [p for p in vinit.params if p != "self"]
        vcall = None
        for c in ast.walk(ff.node):
            if isinstance(c, ast.Call) and (dotted(c.func) or "").split(".")[-1] == visitor.split(".")[-1]:
                vcall = c
        ctx.require(vcall is not None, f"{factory} does not construct {visitor}")
        for i, a in enumerate(vcall.args):
            p = vparams[i] if i < len(vparams) else "?"
            nm = norm(a)
            ok = nm == p or (p == "pass_through_options" and nm == "pass_through")
            ctx.check(ok, rule, f"{factory}->{visitor.split('.')[-1]}:{p}", a, f"visitor parameter `{p}` receives `{nm}`: crossed options", ff, a, detail=f"{p} <- {nm}")
    # opt_or itself
    oo = model.func("apischema.utils.opt_or")
    ctx.check("is not None" in norm(oo.node) or "is None" in norm(oo.node), rule, oo.qualname, oo.node.body[0], "opt_or must default on `is None`, not on truthiness (False is a value)", oo, oo.node, detail="is None test")
    from .common_tristate import tri_state_rule
    tri_state_rule(ctx, rule, ("apischema.deserialization", "apischema.serialization", "apischema.json_schema", "apischema.graphql.schema"))


def check(ctx):
    model = ctx.model
    ctx.explanations.append(
        "C08: decided - every class that check_only() accepts (and its subclasses) returns its input, None under an is-None "
        "test, or a child's result that the same disjunct requires to be check-only; transforming returns (fallback, coerced "
        "None) are excluded by the disjunct (R1); each node that discards child results / returns its input container is "
        "built only under check_only(children) and the no-copy / pass-through predicate (R2); for the (SimpleObjectMethod, "
        "ObjectMethod) pair every attribute only the general node reads is forced neutral, guarded by a forced attribute, or "
        "functionally determined by what the optimised node reads, over all models of the selection predicate (R3); "
        "is_raw_dataclass tests every mechanism FieldsConstructor bypasses (R4); deserialize / serialize forward every option, "
        "positions and defaults agree, tri-state options are defaulted on `is None` (R5); nodes never write through an alias of "
        "their input (R6). Not decided: equality of results between variants for every datum."
    )
    ctx.rule("C08.R1", "check-only nodes are return-transparent; transforming returns are excluded by check_only()", floor=20)
    rule_transparency(ctx, "deser")
    rule_transparency(ctx, "ser")
    ctx.rule("C08.R2", "discarding / input-returning variants are built only under check_only(children) and the no-copy predicate", floor=6)
    rule_discarding(ctx)
    ctx.rule("C08.R3", "optimised object node: everything the general node does in addition is forced neutral by the selection", floor=10)
    rule_sibling(ctx)
    ctx.rule("C08.R4", "raw dataclass constructor: every bypassed mechanism is tested by is_raw_dataclass", floor=9)
    rule_raw_constructor(ctx)
    ctx.rule("C08.R5", "wrapper forwarding: every option is forwarded, positions and defaults agree, tri-state options use `is None`", floor=50)
    rule_forwarding(ctx)
    ctx.rule("C08.R6", "no store / del / mutating call on an alias of the input (both directions)", floor=40)
    dm = [m for m in own_methods(deser_nodes(model)) if classify_impl(m) != "abstract"]
    sm = [m for m in own_methods(ser_nodes(model)) if classify_impl(m) != "abstract"]
    strat = [c.methods["update_result"] for c in model.classes_in_module(SER_MOD) if "update_result" in c.methods and classify_impl(c.methods["update_result"]) != "abstract"]
    # constructors receive the values mapping - the caller's own datum on the SimpleObjectMethod path
    constructs = [c.methods["construct"] for c in model.classes_in_module(DESER_MOD) if "construct" in c.methods and classify_impl(c.methods["construct"]) != "abstract"]
    mutation_rule(ctx, "C08.R6", dm + constructs, {"data", "fields"})
    mutation_rule(ctx, "C08.R6", sm + strat, {"obj"}, child_results_alias=True)

    # ---------------- R7: check-only and building variants evaluate their children in the same order
    ctx.rule("C08.R7", "a check-only variant and the building variant it replaces invoke the same children in the same evaluation order (the first failing child decides the error reported for an item)", floor=3)
    order_rule(ctx)

    # ---------------- R8: check_type and the numeric tower
    ctx.rule("C08.R8", "check_type=True accepts what the annotation accepts: an int is a well-typed value for float (PEP 484, JSON numbers; the deserializer accepts integers for float), so the class checked for float includes int", floor=1)
    sp = model.func("apischema.serialization.SerializationMethodVisitor.primitive")
    ok8 = False
    for n in walk_no_nested(sp.node):
        if isinstance(n, ast.If) and "cls is float" in norm(n.test) and ("self.check_type" in norm(n.test) or True):
            for c in ast.walk(n):
                if isinstance(c, ast.Call) and (dotted(c.func) or "").split(".")[-1] in ("TypeCheckIdentityMethod", "TypeCheckMethod", "_wrap") and c.args:
                    cl = [a for a in c.args if isinstance(a, ast.Tuple)]
                    if cl and {"float", "int"} <= {norm(e) for e in cl[0].elts}:
                        ok8 = True
    fm = model.func(f"{DESER_MOD}.FloatMethod.deserialize")
    deser_accepts_int = "int" in norm(fm.node)
    ctx.check(ok8 or not deser_accepts_int, "C08.R8", f"{sp.qualname}:float", None,
              "with check_type=True a float position is checked with isinstance(obj, float) alone: serialize(float, 1, check_type=True) raises TypeCheckError while serialize(float, 1) returns 1 (and deserialize(float, 1) accepts the integer)",
              sp, sp.node, detail="expected class (float, int) for float")

    # ---------------- R9: pass_through designates classes by membership
    ctx.rule("C08.R9", "a pass_through collection designates exactly the classes it lists (`elt in collection`): widening the predicate to the base classes of a listed class (issubclass(listed, visited)) passes every Sequence / Collection typed value through unvalidated as soon as bytes or a tuple subclass is listed", floor=2)
    ap = model.func("apischema.utils.as_predicate")
    wr = [f for f in ap.nested.values()]
    ctx.require(len(wr) == 1, "as_predicate: wrapper closure not found")
    w = wr[0]
    rets9 = [r for r in ast.walk(w.node) if isinstance(r, ast.Return) and r.value is not None]
    elt9 = w.params[0]
    truthy = [r for r in rets9 if not (isinstance(r.value, ast.Constant) and r.value.value is False)]
    ok9 = bool(truthy) and all(isinstance(r.value, ast.Compare) and len(r.value.ops) == 1 and isinstance(r.value.ops[0], ast.In) and norm(r.value.left) == elt9 for r in truthy)
    widen = [c for c in ast.walk(w.node) if isinstance(c, ast.Call) and dotted(c.func) in ("issubclass", "isinstance")]
    ctx.check(ok9 and not widen, "C08.R9", f"{ap.qualname}:membership", None,
              f"the predicate built from a collection is not plain membership" + (f" (`{short(widen[0], 50)}`)" if widen else "") + ": with pass_through={bytes}, issubclass(bytes, Sequence) holds, every Sequence[...] / Collection[...] position is wrapped in a type check that returns any list as it is - deserialize(Sequence[int], ['a']) returns ['a']",
              ap, widen[0] if widen else w.node, detail=f"return {elt9} in collection")
    ctx.check(any(isinstance(n, ast.If) and norm(n.test).startswith("not isinstance(collection_or_predicate, Collection)") for n in walk_no_nested(ap.node)), "C08.R9", f"{ap.qualname}:predicate", None, "a predicate given by the user is no longer returned as it is", ap, ap.node, detail="callable returned unchanged", nontrivial=False)


def eval_order(node):
    """child-method attributes invoked by a statement list, in Python evaluation order"""
    out = []

    def expr(e):
        if e is None:
            return
        if isinstance(e, ast.Call):
            if isinstance(e.func, ast.Attribute):
                expr(e.func.value)
            for a in e.args:
                expr(a)
            for k in e.keywords:
                expr(k.value)
            if isinstance(e.func, ast.Attribute) and e.func.attr in ("deserialize", "serialize") and norm(e.func.value).startswith("self."):
                out.append(norm(e.func.value)[5:])
            return
        for ch in ast.iter_child_nodes(e):
            if isinstance(ch, ast.expr):
                expr(ch)

    def stmt(s_):
        if isinstance(s_, (ast.Assign, ast.AnnAssign, ast.AugAssign)):
            expr(s_.value)  # the right-hand side is evaluated before the target's sub-expressions
            tg = s_.targets if isinstance(s_, ast.Assign) else [s_.target]
            for t_ in tg:
                expr(t_)
            return
        for fld, val in ast.iter_fields(s_):
            if isinstance(val, ast.expr):
                expr(val)
            elif isinstance(val, list):
                for x in val:
                    if isinstance(x, ast.stmt):
                        stmt(x)
                    elif isinstance(x, ast.expr):
                        expr(x)
                    elif isinstance(x, ast.ExceptHandler):
                        for y in x.body:
                            stmt(y)

    for s_ in node.body:
        stmt(s_)
    return out


def order_rule(ctx):
    model = ctx.model
    pairs = [(DESER_MOD, "ListCheckOnlyMethod", "ListMethod", "deserialize"), (DESER_MOD, "MappingCheckOnly", "MappingMethod", "deserialize"),
             (SER_MOD, "CollectionCheckOnlyMethod", "CollectionMethod", "serialize"), (SER_MOD, "MappingCheckOnlyMethod", "MappingMethod", "serialize")]
    for mod, a, b, verb in pairs:
        if f"{mod}.{a}" not in model.classes or f"{mod}.{b}" not in model.classes:
            continue
        ma, mb_ = model.find_method(f"{mod}.{a}", verb), model.find_method(f"{mod}.{b}", verb)
        oa, ob = eval_order(ma.node), eval_order(mb_.node)
        ctx.check(oa == ob and oa, "C08.R7", f"{a}/{b}", mb_.node.body[0],
                  f"{a} invokes {oa} while {b} invokes {ob} (evaluation order; in `x[f(k)] = g(v)` the value is evaluated before the key): when both children reject an item, the error reported depends on which variant the options selected", mb_, mb_.node, detail=f"{oa}")


def mutants(mb):
    mb.add_text("pass-through-superclasses", "apischema/utils.py", "            return elt in collection\n", "            return elt in collection or (isinstance(elt, type) and any(issubclass(cls, elt) for cls in collection if isinstance(cls, type)))\n", "C08.R9", "membership")
    mb.add_text("check-type-float-exact", "apischema/serialization/__init__.py", "            return TypeCheckIdentityMethod((float, int), self._any_fallback(cls))\n", "            return TypeCheckIdentityMethod(float, self._any_fallback(cls))\n", "C08.R8", "float")
    mb.add_text("discriminator-key-written-in-place", "apischema/serialization/methods.py", "            res = {**res, self.alias: self.key}\n", "            res[self.alias] = self.key\n", "C08.R6", "DiscriminatedAlternative")
    D = "apischema/deserialization/__init__.py"
    S = "apischema/serialization/__init__.py"
    DM = "apischema/deserialization/methods.py"
    SM = "apischema/serialization/methods.py"
    mb.add_text("mapping-value-before-key", DM, "                new_key = self.key_method.deserialize(key)\n                items[new_key] = self.value_method.deserialize(value)\n", "                items[self.key_method.deserialize(key)] = self.value_method.deserialize(value)\n", "C08.R7", "MappingCheckOnly/MappingMethod")
    mb.add_text("nb-fields-operation-subset", D, "                    len(dataclasses.fields(cls)),\n", "                    len(fields),\n", "C08.R4", "nb_fields")
    mb.add_text("construct-default-when-present", DM, "                if default_field.name not in obj_dict:", "                if default_field.name in obj_dict:", "C08.R4", "default-completion")
    mb.add_text("construct-guard-flipped", DM, "        if len(fields) != self.nb_fields:", "        if len(fields) == self.nb_fields:", "C08.R4", "completion")
    mb.add_text("construct-factory-not-called", DM, "                    obj_dict[factory_field.name] = factory_field.factory()", "                    obj_dict[factory_field.name] = factory_field.factory", "C08.R4", "factory-value")
    mb.add_text("float-in-check-only", D, "    NoneMethod,\n    BoolMethod,\n    IntMethod,\n    StrMethod,", "    NoneMethod,\n    BoolMethod,\n    IntMethod,\n    FloatMethod,\n    StrMethod,", "C08.R1", "FloatMethod")
    mb.add_text("typecheck-identity-relisted", S, "CHECK_ONLY_METHODS = (\n    IdentityMethod,\n    CollectionCheckOnlyMethod,", "CHECK_ONLY_METHODS = (\n    IdentityMethod,\n    TypeCheckIdentityMethod,\n    CollectionCheckOnlyMethod,", "C08.R1", "TypeCheckIdentityMethod")
    mb.add_text("typecheck-any-fallback", S, "            isinstance(method, TypeCheckMethod)\n            and isinstance(method.fallback, NoFallback)\n            and check_only(method.method)", "            isinstance(method, TypeCheckMethod)\n            and check_only(method.method)", "C08.R1", "TypeCheckMethod")
    mb.add_text("typecheck-merged-disjunct", S, "            isinstance(method, TypeCheckIdentityMethod)\n            and isinstance(method.fallback, NoFallback)\n        )\n        or (\n            isinstance(method, TypeCheckMethod)\n            and isinstance(method.fallback, NoFallback)\n            and check_only(method.method)\n        )",
                "            isinstance(method, (TypeCheckIdentityMethod, TypeCheckMethod))\n            and isinstance(method.fallback, NoFallback)\n        )", "C08.R1", "TypeCheckMethod")
    mb.add_text("union-any-fallback", S, "            isinstance(method, UnionMethod)\n            and isinstance(method.fallback, NoFallback)\n", "            isinstance(method, UnionMethod)\n", "C08.R1", "UnionMethod")
    mb.add_text("optional-coercer", D, "            isinstance(method, OptionalMethod)\n            and method.coercer is None\n            and check_only(method.value_method)", "            isinstance(method, OptionalMethod)\n            and check_only(method.value_method)", "C08.R1", "OptionalMethod")
    mb.add_text("optional-child-unchecked", D, "            isinstance(method, OptionalMethod)\n            and method.coercer is None\n            and check_only(method.value_method)", "            isinstance(method, OptionalMethod)\n            and method.coercer is None", "C08.R1", "OptionalMethod")
    mb.add_text("int-method-copies", DM, "        if not isinstance(data, int) or isinstance(data, bool):\n            raise bad_type(data, int)\n        return data", "        if not isinstance(data, int) or isinstance(data, bool):\n            raise bad_type(data, int)\n        return int(data)", "C08.R1", "IntMethod")
    mb.add_text("list-checkonly-no-nocopy", D, "            if self.no_copy and check_only(value_method):\n                method = ListCheckOnlyMethod", "            if check_only(value_method):\n                method = ListCheckOnlyMethod", "C08.R2", "ListCheckOnlyMethod")
    mb.add_text("list-checkonly-no-checkonly", D, "            if self.no_copy and check_only(value_method):\n                method = ListCheckOnlyMethod", "            if self.no_copy:\n                method = ListCheckOnlyMethod", "C08.R2", "ListCheckOnlyMethod")
    mb.add_text("mapping-checkonly-key-unchecked", D, "            if self.no_copy and check_only(key_method) and check_only(value_method):", "            if self.no_copy and check_only(value_method):", "C08.R2", "MappingCheckOnly")
    mb.add_text("ser-collection-checkonly-unguarded", S, "        elif passthrough and check_only(value_method):\n            method = CollectionCheckOnlyMethod(value_method)", "        elif check_only(value_method):\n            method = CollectionCheckOnlyMethod(value_method)", "C08.R2", "CollectionCheckOnlyMethod")
    mb.add_text("ser-tuple-checkonly-unchecked", S, "            elif all(map(check_only, elt_methods)):\n                method = TupleCheckOnlyMethod", "            else:\n                method = TupleCheckOnlyMethod", "C08.R2", "TupleCheckOnlyMethod")
    mb.add_text("simple-object-typed-dict-copy", D, "                and (not is_typed_dict(cls) or self.no_copy)\n", "", "C08.R2", "SimpleObjectMethod")
    mb.add_text("simple-object-additional-merged", D, "                and (is_typed_dict(cls) == self.additional_properties)\n                and (not is_typed_dict(cls) or self.no_copy)\n", "                and is_typed_dict(cls) == (self.additional_properties and self.no_copy)\n", "C08.R", "")
    mb.add_text("simple-object-validators", D, "                and not validators\n                and all(", "                and all(", "C08.R3", "validators")
    mb.add_text("simple-object-pattern", D, "                and not pattern_fields\n", "", "C08.R3", "pattern_fields")
    mb.add_text("simple-object-alias", D, "                    and f.alias == f.name\n", "", "C08.R3", "field.name")
    mb.add_text("simple-object-required-by", D, "                    and not f.required_by\n", "", "C08.R3", "required_by")
    mb.add_text("simple-object-constraints", D, "                not object_constraints\n                and not flattened_fields", "                not flattened_fields", "C08.R3", "constraints")
    mb.add_text("raw-no-post-init-test", D, "        and not hasattr(cls, \"__post_init__\")\n", "", "C08.R4", "__post_init__")
    mb.add_text("raw-no-init-test", D, "        and all(f.init for f in dataclasses.fields(cls))\n", "", "C08.R4", "f.init")
    mb.add_text("raw-unguarded", D, "                settings.deserialization.override_dataclass_constructors\n                and is_raw_dataclass(cls)\n", "                settings.deserialization.override_dataclass_constructors\n", "C08.R4", "FieldsConstructor")
    mb.add_text("deserialize-drops-no-copy", D, "        fall_back_on_default=fall_back_on_default,\n        no_copy=no_copy,\n        pass_through=pass_through,\n        schema=schema,", "        fall_back_on_default=fall_back_on_default,\n        pass_through=pass_through,\n        schema=schema,", "C08.R5", "no_copy")
    mb.add_text("serialize-crossed", S, "        exclude_defaults=exclude_defaults,\n        exclude_none=exclude_none,\n        exclude_unset=exclude_unset,\n        fall_back_on_any=fall_back_on_any,\n        no_copy=no_copy,\n        pass_through=pass_through,\n    )(obj)", "        exclude_defaults=exclude_none,\n        exclude_none=exclude_defaults,\n        exclude_unset=exclude_unset,\n        fall_back_on_any=fall_back_on_any,\n        no_copy=no_copy,\n        pass_through=pass_through,\n    )(obj)", "C08.R5", "exclude_")
    mb.add_text("factory-args-crossed", S, "        opt_or(exclude_defaults, settings.serialization.exclude_defaults),\n        opt_or(exclude_none, settings.serialization.exclude_none),\n        opt_or(exclude_unset, settings.serialization.exclude_unset),\n        opt_or(fall_back_on_any, settings.serialization.fall_back_on_any),\n        opt_or(no_copy, settings.serialization.no_copy),\n        opt_or(pass_through, settings.serialization.pass_through),\n    )(type)",
                "        opt_or(exclude_none, settings.serialization.exclude_none),\n        opt_or(exclude_defaults, settings.serialization.exclude_defaults),\n        opt_or(exclude_unset, settings.serialization.exclude_unset),\n        opt_or(fall_back_on_any, settings.serialization.fall_back_on_any),\n        opt_or(no_copy, settings.serialization.no_copy),\n        opt_or(pass_through, settings.serialization.pass_through),\n    )(type)", "C08.R5", "exclude_")
    mb.add_text("wrong-default-namespace", D, "opt_or(no_copy, settings.deserialization.no_copy)", "opt_or(no_copy, settings.serialization.no_copy)", "C08.R5", "no_copy")
    mb.add_text("wrong-default-setting2", D, "opt_or(fall_back_on_default, settings.deserialization.fall_back_on_default)", "opt_or(fall_back_on_default, settings.deserialization.no_copy)", "C08.R5", "fall_back_on_default")
    mb.add_text("tri-state-or", "apischema/json_schema/schema.py", "    if all_refs is None:\n        all_refs = version.all_refs\n    return version, ref_factory, all_refs", "    return version, ref_factory, all_refs or version.all_refs", "C08.R5", "all_refs")
    mb.add_text("ser-mutates-obj", SM, "        for i, elt in enumerate(obj):\n            self.value_method.serialize(elt, i)\n        return obj", "        for i, elt in enumerate(obj):\n            obj[i] = self.value_method.serialize(elt, i)\n        return obj", "C08.R6", "CollectionCheckOnlyMethod")
    mb.add_text("neg-conjunct-order", D, "            if self.no_copy and check_only(value_method):\n                method = ListCheckOnlyMethod", "            if check_only(value_method) and self.no_copy:\n                method = ListCheckOnlyMethod", negative=True)
