"""Enumeration of the compiled-method node classes (closed world) and helpers
shared by the per-node rules."""
import ast
from typing import Dict, List, Optional, Tuple

from .model import AnalysisError, ClassInfo, FuncInfo, Model
from .util import dotted, walk_no_nested

DESER_BASE = "apischema.deserialization.methods.DeserializationMethod"
SER_BASE = "apischema.serialization.methods.SerializationMethod"
DESER_MOD = "apischema.deserialization.methods"
SER_MOD = "apischema.serialization.methods"
VE = "apischema.validation.errors.ValidationError"


def deser_nodes(model: Model) -> List[Tuple[ClassInfo, FuncInfo]]:
    """(class, its own or inherited `deserialize`) for every concrete node class;
    classes that inherit the method unchanged are listed with the inherited one."""
    model.cls(DESER_BASE)
    out = []
    for q in model.subclasses(DESER_BASE, strict=True):
        m = model.find_method(q, "deserialize")
        if m is None:
            raise AnalysisError(f"{q} has no deserialize")
        out.append((model.classes[q], m))
    if len(out) < 25:
        raise AnalysisError(f"only {len(out)} deserialization node classes found (expected >= 25)")
    return out


def ser_nodes(model: Model) -> List[Tuple[ClassInfo, FuncInfo]]:
    model.cls(SER_BASE)
    out = []
    for q in model.subclasses(SER_BASE, strict=True):
        m = model.find_method(q, "serialize")
        if m is None:
            raise AnalysisError(f"{q} has no serialize")
        out.append((model.classes[q], m))
    if len(out) < 25:
        raise AnalysisError(f"only {len(out)} serialization node classes found (expected >= 25)")
    return out


def own_methods(pairs) -> List[FuncInfo]:
    """distinct method definitions (a method inherited by several classes once)."""
    seen, out = set(), []
    for _, m in pairs:
        if m.qualname not in seen:
            seen.add(m.qualname)
            out.append(m)
    return out


def is_ve(model: Model, fi: FuncInfo, expr) -> bool:
    """does `expr` (an except clause type, or a raised class) denote ValidationError?"""
    if expr is None:
        return False
    if isinstance(expr, ast.Tuple):
        return any(is_ve(model, fi, e) for e in expr.elts)
    t = dotted(expr)
    return t is not None and model.resolve_dotted(fi.module, t) == VE


def handler_names(handler: ast.ExceptHandler) -> List[str]:
    t = handler.type
    if t is None:
        return ["BaseException"]
    elts = t.elts if isinstance(t, ast.Tuple) else [t]
    return [(dotted(e) or "?").split(".")[-1] for e in elts]
