"""Checker self-test (thorough tier): source-level mutants of /repo's *current*
files, each an ast-located edit of one rule instance, materialised in a scratch
directory outside /repo and /verif; the rule must fire naming that instance.
Behaviour-preserving variants must leave the findings unchanged.

The mutants only test the checker; the verdict on /repo never depends on them.
"""
import ast
import importlib
import os
import shutil
import tempfile
from concurrent.futures import ProcessPoolExecutor
from typing import Callable, List, Optional

from .model import AnalysisError, Model
from .util import replace_node_text


class Mutant:
    def __init__(self, name: str, relpath: str, new_src: str, rule: Optional[str] = None, construct: str = "", negative: bool = False, analysis_error_ok: bool = False):
        self.name = name
        self.relpath = relpath
        self.new_src = new_src
        self.rule = rule  # rule expected to fire (prefix match), None for negatives
        self.construct = construct  # substring expected in the construct of the finding
        self.negative = negative
        self.analysis_error_ok = analysis_error_ok


class MutantBuilder:
    """Helpers to derive mutants from the model's current sources."""

    def __init__(self, model: Model):
        self.model = model
        self.out: List[Mutant] = []
        self.problems: List[str] = []

    def src(self, relpath: str) -> str:
        for m in self.model.modules.values():
            if m.relpath == relpath:
                return m.src
        raise AnalysisError(f"self-test: no module {relpath}")

    def tree(self, relpath: str) -> ast.AST:
        for m in self.model.modules.values():
            if m.relpath == relpath:
                return m.tree
        raise AnalysisError(f"self-test: no module {relpath}")

    def add_text(self, name, relpath, old: str, new: str, rule=None, construct="", negative=False, count=1, analysis_error_ok=False):
        """Textual edit - only used where the old fragment is first located
        uniquely in the *current* source; a fragment that no longer exists is
        reported as a self-test problem (not silently skipped)."""
        s = self.src(relpath)
        if s.count(old) != count:
            self.problems.append(f"mutant {name}: fragment not found exactly {count}x in {relpath}: {old[:60]!r}")
            return
        self.out.append(Mutant(name, relpath, s.replace(old, new), rule, construct, negative, analysis_error_ok))

    def add_node(self, name, relpath, finder: Callable[[ast.AST], Optional[ast.AST]], new_text, rule=None, construct="", negative=False, analysis_error_ok=False):
        s = self.src(relpath)
        node = finder(self.tree(relpath))
        if node is None:
            self.problems.append(f"mutant {name}: target node not found in {relpath}")
            return
        text = new_text(ast.get_source_segment(s, node)) if callable(new_text) else new_text
        new = replace_node_text(s, node, text)
        try:
            ast.parse(new)
        except SyntaxError as err:
            self.problems.append(f"mutant {name}: edit does not parse: {err}")
            return
        self.out.append(Mutant(name, relpath, new, rule, construct, negative, analysis_error_ok))


def find_func(tree, qual: str):
    """'Class.method' or 'func' or 'func.inner' inside a module tree."""
    parts = qual.split(".")
    cur = [tree]
    node = None
    for p in parts:
        nxt = None
        for c in cur:
            for n in ast.walk(c):
                if isinstance(n, (ast.FunctionDef, ast.AsyncFunctionDef, ast.ClassDef)) and n.name == p:
                    nxt = n
                    break
            if nxt is not None:
                break
        if nxt is None:
            return None
        node = nxt
        cur = [nxt]
    return node


def first(tree_or_node, pred):
    for n in ast.walk(tree_or_node):
        if pred(n):
            return n
    return None


def _materialise(root: str, tmp: str, relpath: str, new_src: str):
    os.makedirs(tmp, exist_ok=True)
    for entry in ("docs",):
        src = os.path.join(root, entry)
        if os.path.exists(src):
            os.symlink(src, os.path.join(tmp, entry))
    pkg = os.path.join(root, "apischema")
    for dirpath, dirnames, filenames in os.walk(pkg):
        dirnames[:] = [d for d in dirnames if d != "__pycache__"]
        rel = os.path.relpath(dirpath, root)
        os.makedirs(os.path.join(tmp, rel), exist_ok=True)
        for fn in filenames:
            if fn.endswith(".py"):
                os.symlink(os.path.join(dirpath, fn), os.path.join(tmp, rel, fn))
    target = os.path.join(tmp, relpath)
    if os.path.islink(target):
        os.unlink(target)
    with open(target, "w") as f:
        f.write(new_src)


def _run_one(args):
    prop, root, base, idx, relpath, new_src = args
    tmp = os.path.join(base, f"m{idx}")
    try:
        _materialise(root, tmp, relpath, new_src)
        from .run import run_rules

        try:
            ctx = run_rules(prop, "quick", tmp, quiet=True)
            ff = ctx.floor_failures()
            if ff and not ctx.findings:
                return idx, "analysis-error", "; ".join(ff)
            return idx, "ok", [(f.rule, f.construct, f.key, f.message) for f in ctx.findings] + [("FLOOR", x, "FLOOR|" + x, x) for x in ff]
        except AnalysisError as err:
            return idx, "analysis-error", str(err)
    except Exception as err:  # pragma: no cover
        import traceback

        return idx, "crash", traceback.format_exc()
    finally:
        shutil.rmtree(tmp, ignore_errors=True)


def run_selftest(prop: str, ctx, jobs: int = 16) -> dict:
    mod = importlib.import_module(f"sa.rules.{prop.lower()}")
    res = {"mutants": 0, "detected": 0, "negatives": 0, "negatives_silent": 0, "failures": [], "details": []}
    if not hasattr(mod, "mutants"):
        res["failures"].append("no mutants defined for this property")
        return res
    mb = MutantBuilder(ctx.model)
    mod.mutants(mb)
    for p in mb.problems:
        res["failures"].append(p)
    baseline = {f.key for f in ctx.findings}
    base = tempfile.mkdtemp(prefix="apischema-sa-", dir=os.environ.get("TMPDIR") or "/var/tmp")
    try:
        jobs_args = [(prop, ctx.root, base, i, m.relpath, m.new_src) for i, m in enumerate(mb.out)]
        with ProcessPoolExecutor(max_workers=max(1, min(jobs, len(jobs_args) or 1))) as ex:
            results = list(ex.map(_run_one, jobs_args))
    finally:
        shutil.rmtree(base, ignore_errors=True)
    for idx, status, payload in results:
        m = mb.out[idx]
        if m.negative:
            res["negatives"] += 1
            if status == "ok" and {k for _, _, k, _ in payload} <= baseline | set():
                new = [p for p in payload if p[2] not in baseline]
                if not new:
                    res["negatives_silent"] += 1
                    res["details"].append({"variant": m.name, "kind": "behaviour-preserving", "result": "silent"})
                    continue
            res["failures"].append(f"behaviour-preserving variant {m.name} changed the verdict: {status} {str(payload)[:300]}")
            continue
        res["mutants"] += 1
        if status == "analysis-error" and m.analysis_error_ok:
            res["detected"] += 1
            res["details"].append({"mutant": m.name, "result": "analysis-error (accepted: anchor destroyed)", "msg": payload[:200]})
            continue
        if status != "ok":
            res["failures"].append(f"mutant {m.name}: checker did not give a verdict ({status}): {str(payload)[:300]}")
            continue
        new = [p for p in payload if p[2] not in baseline]
        hit = [p for p in new if (m.rule is None or p[0].startswith(m.rule)) and m.construct in p[1]]
        if hit:
            res["detected"] += 1
            res["details"].append({"mutant": m.name, "result": "detected", "by": hit[0][0], "construct": hit[0][1], "message": hit[0][3][:160]})
        else:
            res["failures"].append(
                f"mutant {m.name} NOT detected by {m.rule} on {m.construct!r}; new findings: {[(p[0], p[1]) for p in new][:5]}"
            )
    return res
