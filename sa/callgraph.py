"""Whole-package call graph with class-hierarchy resolution (part of E1).

Edges (all may-edges, over-approximating):
  * direct calls of module-level / nested functions and class constructors
    (constructor -> __init__ / __post_init__ / __new__ found through the MRO);
  * `self.m()` / `cls.m()` in class C -> m resolved in the MRO of every subclass
    of C (virtual dispatch); `super().m()` likewise, starting after C;
  * `x.m()` on any other receiver -> every method named m in the package
    (by-name resolution; there is no type-checked IR available);
  * attribute loads `x.p` where p is a @property / cached property in the
    package -> that property;
  * functions referenced as values (`map(self.visit, ...)`, `partial(f, ...)`,
    `Conversion(f)`, decorators) -> treated as possibly called;
  * a function's nested functions / lambdas are reachable from it (they are
    what the lru_cache'd factories run).

Refinement (rapid type analysis, visitor hierarchy only): instances of the
`Visitor` hierarchy are created only by constructor calls inside the package, so
a virtual `self.m()` whose receiver class lies in that hierarchy is resolved
against the visitor classes *instantiated or referenced as values* in the
functions already known reachable (iterated to a fixpoint). Every other
hierarchy keeps plain CHA, because its instances (ObjectField, Schema,
Conversion, ...) may be created at import / registration time.
"""
import ast
from typing import Dict, Iterable, List, Optional, Set

from .model import FuncInfo, Model
from .scope import Env
from .util import dotted, walk_no_nested

VISITOR_ROOT = "apischema.visitor.Visitor"

BUILTIN_RECEIVERS = {"object", "type", "dict", "list", "set", "frozenset", "tuple", "str", "int", "float", "bool", "bytes"}

PROPERTY_DECOS = {"property", "cached_property", "functools.cached_property"}


class CallGraph:
    def __init__(self, model: Model):
        self.model = model
        self.by_name: Dict[str, List[FuncInfo]] = {}
        self.properties: Dict[str, List[FuncInfo]] = {}
        for f in model.functions.values():
            if f.cls is not None:
                self.by_name.setdefault(f.name, []).append(f)
                if any(d in PROPERTY_DECOS or d.endswith(".setter") for d in f.decorators):
                    self.properties.setdefault(f.name, []).append(f)
        self._edges: Dict[str, Set[str]] = {}
        self.unresolved = 0
        self.resolved = 0

    # ------------------------------------------------------------------
    def _ctor_targets(self, cls_q: str) -> List[str]:
        out = []
        for name in ("__init__", "__post_init__", "__new__", "__call__"):
            m = self.model.find_method(cls_q, name)
            if m is not None and name != "__call__":
                out.append(m.qualname)
        return out

    def _virtual(self, owner_q: str, name: str, after: Optional[str] = None, allowed: Optional[Set[str]] = None) -> List[str]:
        out = []
        for k in self.model.subclasses(owner_q):
            if allowed is not None and k not in allowed:
                continue
            m = self.model.find_method(k, name, after=after)
            if m is not None and m.qualname not in out:
                out.append(m.qualname)
        return out

    def _nested_class(self, fi: FuncInfo, name: str) -> Optional[str]:
        g = fi
        while g is not None:
            q = f"{g.qualname}.<locals>.{name}"
            if q in self.model.classes:
                return q
            g = g.parent
        return None

    def summary(self, fi: FuncInfo):
        """(static callees, virtual sites [(owner, name, after)], classes referenced)."""
        if fi.qualname in self._edges:
            return self._edges[fi.qualname]
        model = self.model
        out: Set[str] = set()
        virtual: List[tuple] = []
        typed: List[tuple] = []
        class_refs: Set[str] = set()
        owner = model.enclosing_class(fi)
        env = Env(model, fi)
        for n in fi.nested.values():
            out.add(n.qualname)
        call_funcs = set()
        for node in walk_no_nested(fi.node, include_lambda=True):
            if isinstance(node, ast.Call):
                call_funcs.add(id(node.func))
                f = node.func
                if isinstance(f, ast.Name):
                    nc = self._nested_class(fi, f.id)
                    if nc is not None:
                        class_refs.add(nc)
                        out.update(self._ctor_targets(nc))
                        self.resolved += 1
                        continue
                if isinstance(f, ast.Name) and env.shadowed(f.id) and f.id not in fi.nested:
                    self.unresolved += 1  # a local variable holding a callable
                    continue
                kind, targets = model.resolve_call(fi, node)
                if kind == "func":
                    out.update(targets)
                    self.resolved += 1
                elif kind == "class":
                    class_refs.add(targets[0])
                    out.update(self._ctor_targets(targets[0]))
                    self.resolved += 1
                elif kind in ("method", "super", "attr") and isinstance(f, ast.Attribute):
                    recv = f.value
                    if isinstance(recv, ast.Name) and recv.id in ("self", "cls") and owner is not None:
                        virtual.append((owner.qualname, f.attr, None))
                        self.resolved += 1
                        continue
                    if isinstance(recv, ast.Call) and isinstance(recv.func, ast.Name) and recv.func.id == "super" and owner is not None:
                        virtual.append((owner.qualname, f.attr, owner.qualname))
                        self.resolved += 1
                        continue
                    if kind == "method":
                        out.update(targets)
                        self.resolved += 1
                        continue
                    rc = self.receiver_classes(fi, env, recv)
                    if rc is not None:
                        # receiver of a known class (constructed here / annotated): MRO lookup
                        exact, classes = rc
                        typed.append((exact, tuple(classes), f.attr))
                        for cq in classes:
                            for k in ([cq] if exact else model.subclasses(cq)):
                                mm = model.find_method(k, f.attr)
                                if mm is not None:
                                    out.add(mm.qualname)
                        self.resolved += 1
                        continue
                    if isinstance(recv, ast.Name) and recv.id in BUILTIN_RECEIVERS and not env.shadowed(recv.id) and model.resolve_name(fi.module, recv.id) is None:
                        self.resolved += 1  # object.__setattr__(...), dict.fromkeys(...): not package code
                        continue
                    cands = self.by_name.get(f.attr, [])
                    if cands:
                        out.update(c.qualname for c in cands)
                        self.resolved += 1
                    else:
                        self.unresolved += 1
                else:
                    self.unresolved += 1
        # functions / methods / properties / classes referenced as values
        for node in walk_no_nested(fi.node, include_lambda=True):
            if id(node) in call_funcs:
                continue
            if isinstance(node, ast.Name) and isinstance(node.ctx, ast.Load):
                g = fi
                hit = None
                while g is not None and hit is None:
                    hit = g.nested.get(node.id)
                    g = g.parent
                if hit is not None:
                    out.add(hit.qualname)
                    continue
                nc = self._nested_class(fi, node.id)
                if nc is not None:
                    class_refs.add(nc)
                    out.update(self._ctor_targets(nc))
                    continue
                if env.shadowed(node.id):
                    continue
                q = model.resolve_name(fi.module, node.id)
                if q in model.functions:
                    out.add(q)
                elif q in model.classes:
                    class_refs.add(q)
                    out.update(self._ctor_targets(q))
            elif isinstance(node, ast.Attribute) and isinstance(node.ctx, ast.Load):
                recv = node.value
                if isinstance(recv, ast.Name) and recv.id in ("self", "cls") and owner is not None:
                    virtual.append((owner.qualname, node.attr, None))
                    continue
                for p in self.properties.get(node.attr, []):
                    out.add(p.qualname)
                q = None
                q = env.resolve(node)
                if q in model.functions:
                    out.add(q)
                elif q in model.classes:
                    class_refs.add(q)
        res = (out, virtual, class_refs, typed)
        self._edges[fi.qualname] = res
        return res

    def _class_of_ctor(self, fi: FuncInfo, env: Env, call) -> Optional[tuple]:
        """(exact?, [classes]) for `C(...)` / `cls_var(...)` with cls_var: Type[C]"""
        if not isinstance(call, ast.Call):
            return None
        f = call.func
        if isinstance(f, ast.Name):
            nc = self._nested_class(fi, f.id)
            if nc is not None:
                return (True, [nc])
            if not env.shadowed(f.id):
                q = self.model.resolve_name(fi.module, f.id)
                if q in self.model.classes:
                    return (True, [q])
            # a parameter annotated Type[C]
            g = fi
            while g is not None:
                for a in (*g.node.args.args, *g.node.args.kwonlyargs):
                    if a.arg == f.id and a.annotation is not None:
                        ann = a.annotation
                        if isinstance(ann, ast.Subscript) and (dotted(ann.value) or "").split(".")[-1] == "Type":
                            inner = ann.slice
                            while isinstance(inner, ast.Subscript):
                                inner = inner.value
                            q = self.model.resolve_dotted(g.module, dotted(inner) or "")
                            if q in self.model.classes:
                                return (False, [q])
                g = g.parent
        elif isinstance(f, ast.Attribute):
            q = env.resolve(f)
            if q in self.model.classes:
                return (True, [q])
            # `builder.RefsExtractor(...)`: a class stored as a class attribute
            vals = []
            for ci in self.model.classes.values():
                v = ci.attrs.get(f.attr)
                t = dotted(v) if v is not None else None
                if t:
                    cq = self.model.resolve_dotted(ci.module, t)
                    if cq in self.model.classes and cq not in vals:
                        vals.append(cq)
            if vals:
                return (True, vals)
        return None

    def receiver_classes(self, fi: FuncInfo, env: Env, recv) -> Optional[tuple]:
        """static class of a method-call receiver, when it is syntactically evident"""
        if isinstance(recv, ast.Call):
            return self._class_of_ctor(fi, env, recv)
        if isinstance(recv, ast.Name) and recv.id not in ("self", "cls"):
            vals = []
            g = fi
            while g is not None and not vals:
                for n in walk_no_nested(g.node):
                    if isinstance(n, ast.Assign) and any(isinstance(t, ast.Name) and t.id == recv.id for t in n.targets):
                        vals.append((g, n.value))
                g = g.parent
            if len(vals) == 1:
                return self._class_of_ctor(vals[0][0], Env(self.model, vals[0][0]), vals[0][1])
            return None
        if isinstance(recv, ast.Attribute) and isinstance(recv.value, ast.Name) and recv.value.id == "self":
            owner = self.model.enclosing_class(fi)
            if owner is None:
                return None
            found = []
            for c in self.model.mro(owner.qualname):
                for m in self.model.classes[c].methods.values():
                    for n in walk_no_nested(m.node):
                        if isinstance(n, ast.Assign) and any(isinstance(t, ast.Attribute) and t.attr == recv.attr and isinstance(t.value, ast.Name) and t.value.id == "self" for t in n.targets):
                            found.append((m, n.value))
            if len(found) == 1:
                return self._class_of_ctor(found[0][0], Env(self.model, found[0][0]), found[0][1])
        return None

    def _is_visitor(self, cls_q: str) -> bool:
        return VISITOR_ROOT in self.model.classes and self.model.is_subclass(cls_q, VISITOR_ROOT)

    def _class_attr_classes(self, cls_q: str) -> Set[str]:
        """classes stored as class attributes (`RefsExtractor = DeserializationRefsExtractor`)."""
        out = set()
        for c in self.model.mro(cls_q):
            ci = self.model.classes[c]
            for v in ci.attrs.values():
                t = dotted(v)
                if t:
                    q = self.model.resolve_dotted(ci.module, t)
                    if q in self.model.classes:
                        out.add(q)
        return out

    def callees(self, fi: FuncInfo, instantiated: Optional[Set[str]] = None) -> Set[str]:
        static, virtual, _, _t = self.summary(fi)
        out = set(static)
        for owner, name, after in virtual:
            allowed = None
            if instantiated is not None and self._is_visitor(owner):
                allowed = instantiated
            out.update(self._virtual(owner, name, after, allowed))
        return out

    def reachable(self, roots: Iterable[str], rta: bool = True) -> Dict[str, Optional[str]]:
        """qualname -> predecessor (for path reconstruction)."""
        roots = [r for r in roots if r in self.model.functions]
        instantiated: Set[str] = set()
        while True:
            prev: Dict[str, Optional[str]] = {}
            work = []
            for r in roots:
                if r not in prev:
                    prev[r] = None
                    work.append(r)
            while work:
                q = work.pop()
                for c in self.callees(self.model.functions[q], instantiated if rta else None):
                    if c not in prev and c in self.model.functions:
                        prev[c] = q
                        work.append(c)
            if not rta:
                self.instantiated = None
                return prev
            new_inst: Set[str] = set()
            for q in prev:
                fi = self.model.functions[q]
                for c in self.summary(fi)[2]:
                    new_inst.add(c)
                # a method running on `self` implies its own class (and the
                # concrete subclasses that inherit it are covered by constructors)
            closure = set(new_inst)
            for c in list(new_inst):
                closure |= self._class_attr_classes(c)
            if closure <= instantiated:
                self.instantiated = instantiated
                return prev
            instantiated |= closure

    # ------------------------------------------------------------ object-sensitive
    def reachable_ctx(self, roots: Iterable[str]) -> Dict[tuple, Optional[tuple]]:
        """Reachability with one level of object sensitivity for the visitor
        hierarchy: nodes are (function, concrete visitor class of `self` or None).
        `self.m()` / `super().m()` inside a visitor method resolve in the MRO of the
        concrete class; constructor / typed-receiver calls enter a visitor with its
        class; only an untyped receiver falls back to every instantiated subclass."""
        model = self.model
        self.reachable(roots)  # computes self.instantiated (RTA)
        inst = self.instantiated or set()
        prev: Dict[tuple, Optional[tuple]] = {}
        work = []
        for r in roots:
            if r in model.functions:
                k = (r, None)
                prev[k] = None
                work.append(k)

        def visitor_ctxs(fq: str) -> List[Optional[str]]:
            f = model.functions[fq]
            oc = model.enclosing_class(f)
            if oc is None or not self._is_visitor(oc.qualname):
                return [None]
            ks = [k for k in model.subclasses(oc.qualname) if k in inst and model.find_method(k, f.name) is f]
            return ks or [oc.qualname]

        def push(src, fq, ctx):
            if fq not in model.functions:
                return
            node = (fq, ctx)
            if node not in prev:
                prev[node] = src
                work.append(node)

        while work:
            node = work.pop()
            fq, ctx = node
            fi = model.functions[fq]
            static, virtual, class_refs, typed = self.summary(fi)
            owner = model.enclosing_class(fi)
            is_vis = owner is not None and self._is_visitor(owner.qualname)
            # nested functions run with the same self
            typed_targets = set()
            for exact, classes, attr in typed:
                for cq in classes:
                    ks = [cq] if exact else [k for k in model.subclasses(cq) if (not self._is_visitor(k)) or k in inst or k == cq]
                    for k in ks:
                        mm = model.find_method(k, attr)
                        if mm is not None:
                            typed_targets.add(mm.qualname)
                            push(node, mm.qualname, k if self._is_visitor(k) else None)
            for c in class_refs:
                if self._is_visitor(c):
                    for name in ("__init__", "__post_init__"):
                        mm = model.find_method(c, name)
                        if mm is not None:
                            push(node, mm.qualname, c)
            for tq in static:
                if tq in typed_targets:
                    continue
                tf = model.functions.get(tq)
                if tf is None:
                    continue
                if tf.parent is not None and tf.parent.qualname == fq or (tf.parent is not None and self.model.enclosing_class(tf) is owner and is_vis):
                    push(node, tq, ctx)  # nested closure: same self
                    continue
                toc = model.enclosing_class(tf)
                if toc is not None and self._is_visitor(toc.qualname):
                    if any(tq == model.find_method(c, tf.name).qualname for c in class_refs if self._is_visitor(c) and model.find_method(c, tf.name) is not None):
                        continue  # constructor targets handled above
                    for k in visitor_ctxs(tq):
                        push(node, tq, k)
                else:
                    push(node, tq, None)
            for vowner, name, after in virtual:
                if self._is_visitor(vowner):
                    ks = [ctx] if (ctx is not None and is_vis) else [k for k in model.subclasses(vowner) if k in inst]
                    for k in ks:
                        if k is None or vowner not in model.mro(k):
                            continue
                        mm = model.find_method(k, name, after=after)
                        if mm is not None:
                            push(node, mm.qualname, k)
                else:
                    for tq in self._virtual(vowner, name, after):
                        push(node, tq, None)
        return prev

    @staticmethod
    def chain_ctx(prev, node, limit: int = 8) -> List[str]:
        out = []
        while node is not None and len(out) < limit:
            out.append(node[0].split("apischema.")[-1] + (f"[{node[1].split('.')[-1]}]" if node[1] else ""))
            node = prev.get(node)
        return list(reversed(out))

    @staticmethod
    def chain(prev: Dict[str, Optional[str]], q: str, limit: int = 8) -> List[str]:
        out = []
        while q is not None and len(out) < limit:
            out.append(q)
            q = prev.get(q)
        return list(reversed(out))
