"""E2 - statement-level control-flow graph for one function, with explicit
exception edges for `try`, plus a small forward dataflow driver.

Node kinds:
  entry / exit (normal return) / raise (exception leaves the function)
  stmt   : a simple statement (Assign, Expr, Return, Raise, Assert, Delete, Pass, ...)
  test   : the condition of an `if` / `while` (edges labelled 'true' / 'false')
  iter   : the header of a `for` (edges 'loop' = next element bound, 'exhausted')
  with   : the header of a `with`
  handler: entry of an `except` clause (its name binding)
Edge labels: next, true, false, loop, exhausted, exc.
"""
import ast
from typing import Callable, Dict, Iterable, List, Optional, Set, Tuple


class Node:
    __slots__ = ("id", "kind", "ast", "succs", "preds", "handler_types")

    def __init__(self, id, kind, ast_node=None):
        self.id = id
        self.kind = kind
        self.ast = ast_node
        self.succs: List[Tuple["Node", str]] = []
        self.preds: List[Tuple["Node", str]] = []
        self.handler_types = None

    @property
    def lineno(self):
        return getattr(self.ast, "lineno", 0)

    def __repr__(self):
        return f"<{self.kind}#{self.id} L{self.lineno}>"


class _Loop:
    def __init__(self, head):
        self.head = head
        self.breaks: List[Tuple[Node, str]] = []


class _Try:
    def __init__(self, handlers, has_finally):
        self.handlers: List[Node] = handlers  # handler entry nodes
        self.has_finally = has_finally
        self.finally_pending: List[Tuple[Node, str]] = []  # abrupt exits routed to finally


class CFG:
    def __init__(self, func: ast.FunctionDef, exc_edges: bool = True):
        self.func = func
        self.nodes: List[Node] = []
        self.entry = self._new("entry")
        self.exit = self._new("exit")
        self.raise_exit = self._new("raise")
        self.exc_edges = exc_edges
        self._loops: List[_Loop] = []
        self._tries: List[_Try] = []
        self.stmt_node: Dict[ast.AST, Node] = {}
        out = self._body(func.body, [(self.entry, "next")])
        self._connect(out, self.exit)

    # -------------------------------------------------------------- building
    def _new(self, kind, ast_node=None) -> Node:
        n = Node(len(self.nodes), kind, ast_node)
        self.nodes.append(n)
        if ast_node is not None and ast_node not in self.stmt_node:
            self.stmt_node[ast_node] = n
        return n

    def _connect(self, preds: Iterable[Tuple[Node, str]], node: Node):
        for p, label in preds:
            if (node, label) not in p.succs:
                p.succs.append((node, label))
                node.preds.append((p, label))

    def _exc_targets(self) -> List[Node]:
        """Where an exception raised at the current point may go."""
        if self._tries:
            t = self._tries[-1]
            return list(t.handlers) if t.handlers else []
        return []

    def _add_exc(self, node: Node):
        """Exception edges out of `node` (a statement that may raise)."""
        if not self.exc_edges:
            return
        # innermost try first; an exception not matched by its handlers goes outwards
        for t in reversed(self._tries):
            for h in t.handlers:
                self._connect([(node, "exc")], h)
            if t.has_finally:
                t.finally_pending.append((node, "exc"))
                return
            if any(h.handler_types is None for h in t.handlers):
                return  # bare except catches everything
        self._connect([(node, "exc")], self.raise_exit)

    def _abrupt(self, node: Node, target: Node, label="next"):
        """return / explicit raise: goes through enclosing finally blocks."""
        for t in reversed(self._tries):
            if t.has_finally:
                t.finally_pending.append((node, label))
                return
        self._connect([(node, label)], target)

    def _body(self, stmts, preds):
        for st in stmts:
            preds = self._stmt(st, preds)
        return preds

    def _stmt(self, st, preds):
        if isinstance(st, (ast.FunctionDef, ast.AsyncFunctionDef, ast.ClassDef)):
            n = self._new("stmt", st)
            self._connect(preds, n)
            return [(n, "next")]
        if isinstance(st, ast.If):
            t = self._new("test", st.test)
            self.stmt_node[st] = t
            self._connect(preds, t)
            self._add_exc(t)
            a = self._body(st.body, [(t, "true")])
            b = self._body(st.orelse, [(t, "false")]) if st.orelse else [(t, "false")]
            return a + b
        if isinstance(st, ast.While):
            t = self._new("test", st.test)
            self.stmt_node[st] = t
            self._connect(preds, t)
            self._add_exc(t)
            loop = _Loop(t)
            self._loops.append(loop)
            body_out = self._body(st.body, [(t, "true")])
            self._loops.pop()
            self._connect(body_out, t)
            out = [(t, "false")]
            if st.orelse:
                out = self._body(st.orelse, out)
            return out + loop.breaks
        if isinstance(st, (ast.For, ast.AsyncFor)):
            h = self._new("iter", st)
            self._connect(preds, h)
            self._add_exc(h)
            loop = _Loop(h)
            self._loops.append(loop)
            body_out = self._body(st.body, [(h, "loop")])
            self._loops.pop()
            self._connect(body_out, h)
            out = [(h, "exhausted")]
            if st.orelse:
                out = self._body(st.orelse, out)
            return out + loop.breaks
        if isinstance(st, (ast.With, ast.AsyncWith)):
            w = self._new("with", st)
            self._connect(preds, w)
            self._add_exc(w)
            suppressing = any(
                isinstance(i.context_expr, ast.Call)
                and getattr(i.context_expr.func, "id", getattr(i.context_expr.func, "attr", "")) == "suppress"
                for i in st.items
            )
            if suppressing:
                # `with suppress(X): body` == try: body / except X: pass
                h = self._new("handler", st)
                h.handler_types = [i.context_expr for i in st.items]
                self._tries.append(_Try([h], False))
                out = self._body(st.body, [(w, "next")])
                self._tries.pop()
                return out + [(h, "next")]
            return self._body(st.body, [(w, "next")])
        if isinstance(st, ast.Try) or st.__class__.__name__ == "TryStar":
            handlers = []
            for hd in st.handlers:
                hn = self._new("handler", hd)
                hn.handler_types = hd.type
                handlers.append(hn)
            tr = _Try(handlers, bool(st.finalbody))
            self._tries.append(tr)
            body_out = self._body(st.body, preds)
            # handlers / else run outside the protection of their own try,
            # but still inside its finally
            tr.handlers = []
            if st.orelse:
                body_out = self._body(st.orelse, body_out)
            outs = list(body_out)
            for hd, hn in zip(st.handlers, handlers):
                outs += self._body(hd.body, [(hn, "next")])
            self._tries.pop()
            if st.finalbody:
                fin_in = outs + tr.finally_pending
                fin_out = self._body(st.finalbody, fin_in)
                # after finally: normal continuation, and (over-approximation)
                # propagation of whatever abrupt completion entered it
                if tr.finally_pending:
                    for n, _ in fin_out:
                        kinds = {lab for _, lab in tr.finally_pending}
                        if "exc" in kinds:
                            self._add_exc_from_finally(n)
                        if kinds - {"exc"}:
                            self._abrupt(n, self.exit, "next")
                return fin_out if outs else []
            return outs
        # ---- simple statements
        n = self._new("stmt", st)
        self._connect(preds, n)
        if isinstance(st, ast.Return):
            self._add_exc(n)
            self._abrupt(n, self.exit)
            return []
        if isinstance(st, ast.Raise):
            self._raise(n)
            return []
        if isinstance(st, ast.Break):
            if self._loops:
                self._loops[-1].breaks.append((n, "next"))
            return []
        if isinstance(st, ast.Continue):
            if self._loops:
                self._connect([(n, "next")], self._loops[-1].head)
            return []
        self._add_exc(n)
        return [(n, "next")]

    def _add_exc_from_finally(self, n: Node):
        saved = self.exc_edges
        self.exc_edges = True
        self._add_exc(n)
        self.exc_edges = saved

    def _raise(self, n: Node):
        """explicit `raise`: to the handlers of enclosing tries (any of them may
        match - matching on class is left to the rules), else out."""
        for t in reversed(self._tries):
            for h in t.handlers:
                self._connect([(n, "exc")], h)
            if t.has_finally:
                t.finally_pending.append((n, "exc"))
                return
            if any(h.handler_types is None for h in t.handlers):
                return
        self._connect([(n, "exc")], self.raise_exit)

    # -------------------------------------------------------------- queries
    def reachable(self, start: Node, labels_excluded: Set[str] = frozenset(), stop: Optional[Callable[[Node], bool]] = None) -> Set[Node]:
        seen = {start}
        stack = [start]
        while stack:
            n = stack.pop()
            if stop is not None and n is not start and stop(n):
                continue
            for s, lab in n.succs:
                if lab in labels_excluded or s in seen:
                    continue
                seen.add(s)
                stack.append(s)
        return seen

    def path_avoiding(self, start: Node, targets: Set[Node], blockers: Callable[[Node], bool], labels_excluded: Set[str] = frozenset()) -> Optional[List[Node]]:
        """A path from `start` to any node of `targets` that passes through no
        blocker node (start itself is not tested), or None."""
        prev: Dict[Node, Optional[Node]] = {start: None}
        queue = [start]
        while queue:
            n = queue.pop(0)
            if n in targets and n is not start:
                path = []
                while n is not None:
                    path.append(n)
                    n = prev[n]
                return list(reversed(path))
            if n is not start and blockers(n):
                continue
            for s, lab in n.succs:
                if lab in labels_excluded or s in prev:
                    continue
                prev[s] = n
                queue.append(s)
        return None

    def dominators(self, labels_excluded: Set[str] = frozenset()) -> Dict[Node, Set[Node]]:
        nodes = [n for n in self.nodes]
        reach = self.reachable(self.entry, labels_excluded)
        dom: Dict[Node, Set[Node]] = {n: set(reach) for n in reach}
        dom[self.entry] = {self.entry}
        changed = True
        while changed:
            changed = False
            for n in nodes:
                if n is self.entry or n not in reach:
                    continue
                ps = [p for p, lab in n.preds if lab not in labels_excluded and p in reach]
                new = set.intersection(*(dom[p] for p in ps)) if ps else set()
                new = new | {n}
                if new != dom[n]:
                    dom[n] = new
                    changed = True
        return dom

    def forward(self, init, transfer, join, edge=None, labels_excluded: Set[str] = frozenset()):
        """Worklist forward analysis. `transfer(node, state) -> state` gives the
        state after the node; `edge(node, label, state) -> state|None` refines it
        along one outgoing edge (None = edge infeasible). Returns IN states."""
        IN: Dict[Node, object] = {self.entry: init}
        work = [self.entry]
        while work:
            n = work.pop(0)
            out = transfer(n, IN[n])
            for s, lab in n.succs:
                if lab in labels_excluded:
                    continue
                st = out if edge is None else edge(n, lab, out)
                if st is None:
                    continue
                if s in IN:
                    j = join(IN[s], st)
                    if j == IN[s]:
                        continue
                    IN[s] = j
                else:
                    IN[s] = st
                if s not in work:
                    work.append(s)
        return IN


def describe_path(path: List[Node], limit: int = 10) -> List[str]:
    from .util import short

    out = []
    for n in path[:limit]:
        if n.kind in ("entry", "exit", "raise"):
            out.append(n.kind)
        else:
            txt = short(n.ast, 90) if n.kind != "iter" else "for " + short(n.ast.target, 30) + " in " + short(n.ast.iter, 50)
            if n.kind == "handler":
                txt = "except " + (short(n.ast.type, 40) if getattr(n.ast, "type", None) is not None else "")
            out.append(f"L{n.lineno}: {txt}")
    if len(path) > limit:
        out.append(f"... ({len(path) - limit} more)")
    return out
