"""E1 - repo model: modules, imports, classes (C3 MRO from source), functions
(including nested ones) and callee resolution, built from `ast` only.

Nothing of apischema is imported or executed.
"""
import ast
import hashlib
import os
from typing import Dict, Iterable, Iterator, List, Optional, Tuple

from .util import dotted, walk_no_nested

PKG = "apischema"


class AnalysisError(Exception):
    """The analysis cannot be carried out (vanished anchor, unknown idiom...)."""


class ModuleInfo:
    def __init__(self, name: str, path: str, relpath: str, src: str):
        self.name = name
        self.path = path
        self.relpath = relpath
        self.src = src
        try:
            self.tree = ast.parse(src, filename=path)
        except SyntaxError as err:
            raise AnalysisError(f"syntax error in {relpath}: {err}")
        # behaviour-preserving respellings are brought to the canonical form the rules are written against
        from .canon import canonicalise
        canonicalise(self.tree, relpath, src)
        self.digest = hashlib.sha256(src.encode()).hexdigest()[:16]
        self.imports: Dict[str, str] = {}
        self.defs: Dict[str, ast.AST] = {}
        self.assigns: Dict[str, List[ast.AST]] = {}
        self.is_pkg = relpath.endswith("__init__.py")

    def __repr__(self):
        return f"<module {self.name}>"


class FuncInfo:
    def __init__(self, qualname, node, module, cls=None, parent=None):
        self.qualname: str = qualname
        self.name: str = node.name
        self.node: ast.FunctionDef = node
        self.module: ModuleInfo = module
        self.cls: Optional["ClassInfo"] = cls
        self.parent: Optional["FuncInfo"] = parent
        self.decorators: List[str] = []
        for d in node.decorator_list:
            f = d.func if isinstance(d, ast.Call) else d
            self.decorators.append(dotted(f) or "?")
        self.nested: Dict[str, "FuncInfo"] = {}

    @property
    def params(self) -> List[str]:
        a = self.node.args
        return [x.arg for x in (*a.posonlyargs, *a.args, *a.kwonlyargs)]

    @property
    def loc(self) -> str:
        return f"{self.module.relpath}:{self.node.lineno}"

    def __repr__(self):
        return f"<func {self.qualname}>"


class ClassInfo:
    def __init__(self, qualname, node, module, parent_func=None):
        self.qualname: str = qualname
        self.name: str = node.name
        self.node: ast.ClassDef = node
        self.module: ModuleInfo = module
        self.parent_func = parent_func
        self.base_exprs = list(node.bases)
        self.bases: List[str] = []  # resolved qualified names (repo classes only)
        self.raw_bases: List[str] = []
        self.metaclass: Optional[str] = None
        self.methods: Dict[str, FuncInfo] = {}
        self.attrs: Dict[str, ast.AST] = {}  # class level `x = value` / `x: T = value`
        self.annotations: Dict[str, ast.AST] = {}
        self.field_order: List[str] = []
        self.decorators: List[ast.AST] = list(node.decorator_list)

    @property
    def loc(self) -> str:
        return f"{self.module.relpath}:{self.node.lineno}"

    def is_dataclass(self) -> bool:
        for d in self.decorators:
            f = d.func if isinstance(d, ast.Call) else d
            if (dotted(f) or "").split(".")[-1] == "dataclass":
                return True
        return False

    def __repr__(self):
        return f"<class {self.qualname}>"


class Model:
    def __init__(self, root: str):
        self.root = os.path.abspath(root)
        self.pkg_dir = os.path.join(self.root, PKG)
        if not os.path.isdir(self.pkg_dir):
            raise AnalysisError(f"no {PKG}/ package under {self.root}")
        self.modules: Dict[str, ModuleInfo] = {}
        self.classes: Dict[str, ClassInfo] = {}
        self.functions: Dict[str, FuncInfo] = {}
        self._mro_cache: Dict[str, List[str]] = {}
        self._subs: Optional[Dict[str, List[str]]] = None
        self._load()

    # ------------------------------------------------------------------ load
    def _load(self):
        for dirpath, dirnames, filenames in os.walk(self.pkg_dir):
            dirnames[:] = sorted(d for d in dirnames if d != "__pycache__")
            for fn in sorted(filenames):
                if not fn.endswith(".py"):
                    continue
                path = os.path.join(dirpath, fn)
                rel = os.path.relpath(path, self.root)
                parts = rel[:-3].split(os.sep)
                if parts[-1] == "__init__":
                    parts = parts[:-1]
                name = ".".join(parts)
                with open(path, encoding="utf8") as f:
                    src = f.read()
                self.modules[name] = ModuleInfo(name, path, rel, src)
        for mod in self.modules.values():
            self._index_module(mod)
        for cls in self.classes.values():
            self._resolve_bases(cls)

    def _index_module(self, mod: ModuleInfo):
        for node in ast.walk(mod.tree):
            # imports anywhere in the module (function-level imports included): the
            # repo uses `from apischema import settings` inside functions
            if isinstance(node, ast.ImportFrom):
                base = node.module or ""
                if node.level:
                    pkg_parts = mod.name.split(".")
                    if not mod.is_pkg:
                        pkg_parts = pkg_parts[:-1]
                    pkg_parts = pkg_parts[: len(pkg_parts) - (node.level - 1)]
                    base = ".".join(pkg_parts + ([base] if base else []))
                for a in node.names:
                    if a.name == "*":
                        continue
                    mod.imports.setdefault(a.asname or a.name, f"{base}.{a.name}")
            elif isinstance(node, ast.Import):
                for a in node.names:
                    if a.asname:
                        mod.imports.setdefault(a.asname, a.name)
                    else:
                        mod.imports.setdefault(a.name.split(".")[0], a.name.split(".")[0])
        self._index_body(mod, mod.tree.body, mod.name, None, None, top=True)

    def _index_body(self, mod, body, prefix, cls, parent_func, top=False):
        for st in body:
            if isinstance(st, (ast.FunctionDef, ast.AsyncFunctionDef)):
                qn = f"{prefix}.{st.name}"
                fi = FuncInfo(qn, st, mod, cls, parent_func)
                # overloads: keep the last definition (the implementation)
                self.functions[qn] = fi
                if cls is not None:
                    cls.methods[st.name] = fi
                if parent_func is not None and cls is None:
                    parent_func.nested[st.name] = fi
                if top:
                    mod.defs[st.name] = st
                self._index_nested(mod, st, qn, fi)
            elif isinstance(st, ast.ClassDef):
                qn = f"{prefix}.{st.name}"
                ci = ClassInfo(qn, st, mod, parent_func)
                self.classes[qn] = ci
                if top:
                    mod.defs[st.name] = st
                for kw in st.keywords:
                    if kw.arg == "metaclass":
                        ci.metaclass = dotted(kw.value)
                for sub in st.body:
                    if isinstance(sub, ast.Assign):
                        for t in sub.targets:
                            if isinstance(t, ast.Name):
                                ci.attrs[t.id] = sub.value
                                ci.field_order.append(t.id)
                    elif isinstance(sub, ast.AnnAssign) and isinstance(sub.target, ast.Name):
                        ci.annotations[sub.target.id] = sub.annotation
                        ci.field_order.append(sub.target.id)
                        if sub.value is not None:
                            ci.attrs[sub.target.id] = sub.value
                self._index_body(mod, st.body, qn, ci, parent_func)
            elif top and isinstance(st, (ast.Assign, ast.AnnAssign)):
                targets = st.targets if isinstance(st, ast.Assign) else [st.target]
                for t in targets:
                    if isinstance(t, ast.Name):
                        mod.defs.setdefault(t.id, st)
                        mod.assigns.setdefault(t.id, []).append(st)
                    elif isinstance(t, ast.Tuple):
                        for e in t.elts:
                            if isinstance(e, ast.Name):
                                mod.defs.setdefault(e.id, st)
                                mod.assigns.setdefault(e.id, []).append(st)
            elif top and isinstance(st, (ast.If, ast.Try)):
                # `try: from x import y / except ImportError` and `if TYPE_CHECKING`
                for field in ("body", "orelse", "finalbody"):
                    self._index_body(mod, getattr(st, field, []) or [], prefix, cls, parent_func, top=True)
                for h in getattr(st, "handlers", []) or []:
                    self._index_body(mod, h.body, prefix, cls, parent_func, top=True)

    def _index_nested(self, mod, func_node, qn, fi):
        """functions / classes defined inside a function body (any depth of
        compound statements, not inside further defs)."""
        for n in walk_no_nested(func_node):
            if isinstance(n, (ast.FunctionDef, ast.AsyncFunctionDef)):
                nqn = f"{qn}.<locals>.{n.name}"
                nfi = FuncInfo(nqn, n, mod, None, fi)
                self.functions[nqn] = nfi
                fi.nested[n.name] = nfi
                self._index_nested(mod, n, nqn, nfi)
            elif isinstance(n, ast.ClassDef):
                nqn = f"{qn}.<locals>.{n.name}"
                ci = ClassInfo(nqn, n, mod, fi)
                self.classes[nqn] = ci
                self._index_body(mod, n.body, nqn, ci, fi)

    # ------------------------------------------------------------ resolution
    def canonical(self, qualified: str, depth: int = 6) -> str:
        """Follow re-exports: apischema.conversions.Conversion ->
        apischema.conversions.conversions.Conversion."""
        for _ in range(depth):
            if qualified in self.classes or qualified in self.functions:
                return qualified
            modname, _, attr = qualified.rpartition(".")
            mod = self.modules.get(modname)
            if mod is not None:
                if attr in mod.defs:
                    return qualified
                # a name imported in a package __init__ shadows the submodule of the
                # same name (`from .settings import settings`)
                if attr in mod.imports and mod.imports[attr] != qualified:
                    qualified = mod.imports[attr]
                    continue
            return qualified
        return qualified

    def resolve_name(self, mod: ModuleInfo, name: str) -> Optional[str]:
        """Qualified name a bare identifier refers to at module level."""
        if name in mod.defs:
            return f"{mod.name}.{name}"
        if name in mod.imports:
            return self.canonical(mod.imports[name])
        return None

    def resolve_dotted(self, mod: ModuleInfo, text: str) -> Optional[str]:
        head, _, rest = text.partition(".")
        base = self.resolve_name(mod, head)
        if base is None:
            return None
        if not rest:
            return base
        return self.canonical(f"{base}.{rest}")

    def _resolve_bases(self, cls: ClassInfo):
        for b in cls.base_exprs:
            while isinstance(b, ast.Subscript):
                b = b.value
            text = dotted(b)
            if text is None:
                continue
            cls.raw_bases.append(text)
            q = self.resolve_dotted(cls.module, text)
            if q is None and cls.parent_func is not None:
                q = None
            if q in self.classes:
                cls.bases.append(q)

    def mro(self, qualname: str) -> List[str]:
        if qualname in self._mro_cache:
            return self._mro_cache[qualname]
        cls = self.classes[qualname]
        seqs = [list(self.mro(b)) for b in cls.bases] + [list(cls.bases)]
        res = [qualname]
        while True:
            seqs = [s for s in seqs if s]
            if not seqs:
                break
            for s in seqs:
                cand = s[0]
                if not any(cand in t[1:] for t in seqs):
                    break
            else:
                raise AnalysisError(f"inconsistent MRO for {qualname}")
            res.append(cand)
            for s in seqs:
                if s and s[0] == cand:
                    del s[0]
        self._mro_cache[qualname] = res
        return res

    def subclasses(self, qualname: str, strict: bool = False) -> List[str]:
        if self._subs is None:
            self._subs = {}
            for c in self.classes:
                for a in self.mro(c):
                    self._subs.setdefault(a, []).append(c)
        out = self._subs.get(qualname, [])
        return [c for c in out if not (strict and c == qualname)]

    def is_subclass(self, sub: str, sup: str) -> bool:
        return sub in self.classes and sup in self.mro(sub)

    def find_method(self, cls_q: str, name: str, after: Optional[str] = None) -> Optional[FuncInfo]:
        """MRO lookup; with `after`, the lookup starts after that class in the
        MRO of `cls_q` (i.e. what `super()` in `after` resolves to)."""
        mro = self.mro(cls_q)
        if after is not None:
            if after not in mro:
                return None
            mro = mro[mro.index(after) + 1 :]
        for c in mro:
            m = self.classes[c].methods.get(name)
            if m is not None:
                return m
        return None

    def find_class_attr(self, cls_q: str, name: str):
        for c in self.mro(cls_q):
            ci = self.classes[c]
            if name in ci.attrs:
                return ci, ci.attrs[name]
        return None, None

    # ------------------------------------------------------------------ lookup
    def cls(self, qualname: str) -> ClassInfo:
        if qualname not in self.classes:
            raise AnalysisError(f"anchor vanished: class {qualname}")
        return self.classes[qualname]

    def func(self, qualname: str) -> FuncInfo:
        if qualname not in self.functions:
            raise AnalysisError(f"anchor vanished: function {qualname}")
        return self.functions[qualname]

    def mod(self, name: str) -> ModuleInfo:
        if name not in self.modules:
            raise AnalysisError(f"anchor vanished: module {name}")
        return self.modules[name]

    def module_value(self, modname: str, name: str) -> ast.AST:
        mod = self.mod(modname)
        sts = mod.assigns.get(name)
        if not sts:
            raise AnalysisError(f"anchor vanished: {modname}.{name}")
        st = sts[-1]
        if st.value is None:
            raise AnalysisError(f"{modname}.{name} has no value")
        return st.value

    def funcs_in_module(self, modname: str) -> List[FuncInfo]:
        return [f for f in self.functions.values() if f.module.name == modname]

    def classes_in_module(self, modname: str) -> List[ClassInfo]:
        return [c for c in self.classes.values() if c.module.name == modname]

    def methods_named(self, base: str, name: str) -> List[FuncInfo]:
        """Every definition of `name` in `base` and its subclasses (closed world)."""
        out = []
        for c in self.subclasses(base):
            m = self.classes[c].methods.get(name)
            if m is not None:
                out.append(m)
        return out

    # ---------------------------------------------------------------- calls
    def enclosing_class(self, fi: FuncInfo) -> Optional[ClassInfo]:
        f = fi
        while f is not None:
            if f.cls is not None:
                return f.cls
            f = f.parent
        return None

    def resolve_call(self, fi: FuncInfo, call: ast.Call, concrete: Optional[str] = None) -> Tuple[str, List[str]]:
        """Return (kind, targets). kind in {'func','class','method','super','attr','unknown'}.
        For `self.m()` targets are the MRO-resolved method of `concrete` (or of the
        enclosing class) - callers wanting CHA use methods_named()."""
        f = call.func
        mod = fi.module
        if isinstance(f, ast.Name):
            g = fi
            while g is not None:
                if f.id in g.nested:
                    return "func", [g.nested[f.id].qualname]
                g = g.parent
            q = self.resolve_name(mod, f.id)
            if q in self.functions:
                return "func", [q]
            if q in self.classes:
                return "class", [q]
            return "unknown", [q or f.id]
        if isinstance(f, ast.Attribute):
            recv = f.value
            owner = self.enclosing_class(fi)
            if isinstance(recv, ast.Name) and recv.id in ("self", "cls") and owner is not None:
                m = self.find_method(concrete or owner.qualname, f.attr)
                if m is not None:
                    return "method", [m.qualname]
                return "attr", [f.attr]
            if (
                isinstance(recv, ast.Call)
                and isinstance(recv.func, ast.Name)
                and recv.func.id == "super"
                and owner is not None
            ):
                m = self.find_method(concrete or owner.qualname, f.attr, after=owner.qualname)
                if m is not None:
                    return "super", [m.qualname]
                return "attr", [f.attr]
            text = dotted(f)
            if text and text.split(".")[0] == "settings" and "apischema.settings" in self.modules:
                # settings.<attr>(...) / settings.<namespace>.<attr>(...): the default value of the setting
                parts = text.split(".")
                cq = ".".join(["apischema.settings.settings"] + parts[1:-1])
                if cq in self.classes:
                    v = self.classes[cq].attrs.get(parts[-1])
                    if isinstance(v, (ast.Name, ast.Attribute)) and dotted(v):
                        q = self.resolve_dotted(self.modules["apischema.settings"], dotted(v))
                        if q in self.functions:
                            return "func", [q]
            if text:
                q = self.resolve_dotted(mod, text)
                if q in self.functions:
                    return "func", [q]
                if q in self.classes:
                    return "class", [q]
                # Class.method
                head, _, attr = text.rpartition(".")
                qh = self.resolve_dotted(mod, head) if head else None
                if qh in self.classes:
                    m = self.find_method(qh, attr)
                    if m is not None:
                        return "method", [m.qualname]
            return "attr", [f.attr]
        return "unknown", ["?"]

    def calls_in(self, fi: FuncInfo, include_nested: bool = False) -> Iterator[ast.Call]:
        it: Iterable[ast.AST] = ast.walk(fi.node) if include_nested else walk_no_nested(fi.node, include_lambda=True)
        for n in it:
            if isinstance(n, ast.Call):
                yield n

    def files_digest(self) -> str:
        h = hashlib.sha256()
        for name in sorted(self.modules):
            h.update(name.encode())
            h.update(self.modules[name].digest.encode())
        return h.hexdigest()[:16]
