"""Small AST helpers shared by every rule (pure stdlib)."""
import ast
import re
from typing import Iterator, List, Optional, Tuple


def norm(node) -> str:
    """Whitespace / position free text of a node: the key used for findings."""
    if isinstance(node, str):
        return re.sub(r"\s+", " ", node).strip()
    try:
        return re.sub(r"\s+", " ", ast.unparse(node)).strip()
    except Exception:  # pragma: no cover
        return "<unparsable>"


def short(node, n: int = 160) -> str:
    s = norm(node)
    return s if len(s) <= n else s[: n - 3] + "..."


def dotted(node) -> Optional[str]:
    """a.b.c -> 'a.b.c' for Name / Attribute chains, else None."""
    parts: List[str] = []
    while isinstance(node, ast.Attribute):
        parts.append(node.attr)
        node = node.value
    if isinstance(node, ast.Name):
        parts.append(node.id)
        return ".".join(reversed(parts))
    return None


def call_name(node) -> Optional[str]:
    return dotted(node.func) if isinstance(node, ast.Call) else None


def walk_no_nested(node, *, include_lambda=False) -> Iterator[ast.AST]:
    """ast.walk restricted to what executes when the function *runs*: when the
    root is a function, only its body is walked (decorators, defaults and
    annotations are evaluated at definition time, in the enclosing scope). Nested
    function / class definitions are yielded but not entered, except for their
    decorators and argument defaults, which do execute in the enclosing body."""
    if isinstance(node, (ast.FunctionDef, ast.AsyncFunctionDef)):
        stack = list(node.body)
    elif isinstance(node, ast.Lambda):
        stack = [node.body]
    else:
        stack = list(ast.iter_child_nodes(node))
    while stack:
        n = stack.pop()
        yield n
        if isinstance(n, (ast.FunctionDef, ast.AsyncFunctionDef)):
            stack.extend(n.decorator_list)
            stack.extend(d for d in (*n.args.defaults, *n.args.kw_defaults) if d is not None)
            continue
        if isinstance(n, ast.ClassDef):
            stack.extend(n.decorator_list)
            continue
        if isinstance(n, ast.Lambda) and not include_lambda:
            continue
        stack.extend(ast.iter_child_nodes(n))


def walk_stmts(body) -> Iterator[ast.stmt]:
    """Every statement of a body, recursively, without entering nested defs."""
    for st in body:
        yield st
        if isinstance(st, (ast.FunctionDef, ast.AsyncFunctionDef, ast.ClassDef)):
            continue
        for field in ("body", "orelse", "finalbody"):
            sub = getattr(st, field, None)
            if isinstance(sub, list) and sub and isinstance(sub[0], ast.stmt):
                yield from walk_stmts(sub)
        for h in getattr(st, "handlers", []) or []:
            yield from walk_stmts(h.body)


def names_in(node) -> set:
    return {n.id for n in ast.walk(node) if isinstance(n, ast.Name)}


def is_name(node, name: str) -> bool:
    return isinstance(node, ast.Name) and node.id == name


def const_value(node, default=None):
    return node.value if isinstance(node, ast.Constant) else default


def parents_map(root) -> dict:
    par = {}
    for n in ast.walk(root):
        for c in ast.iter_child_nodes(n):
            par[c] = n
    return par


def only_raises(func: ast.FunctionDef, exc_name: str) -> bool:
    """Body (after an optional docstring) is a single `raise <exc_name>[(...)]`."""
    body = list(func.body)
    if body and isinstance(body[0], ast.Expr) and isinstance(body[0].value, ast.Constant) and isinstance(body[0].value.value, str):
        body = body[1:]
    if len(body) != 1 or not isinstance(body[0], ast.Raise) or body[0].exc is None:
        return False
    exc = body[0].exc
    if isinstance(exc, ast.Call):
        exc = exc.func
    return dotted(exc) == exc_name


def raised_name(stmt: ast.Raise) -> Optional[str]:
    exc = stmt.exc
    if exc is None:
        return None
    if isinstance(exc, ast.Call):
        exc = exc.func
    return dotted(exc)


def flatten_boolop(node, op) -> List[ast.expr]:
    if isinstance(node, ast.BoolOp) and isinstance(node.op, op):
        out: List[ast.expr] = []
        for v in node.values:
            out.extend(flatten_boolop(v, op))
        return out
    return [node]


def get_source_segment(src: str, node) -> str:
    return ast.get_source_segment(src, node) or ""


def replace_node_text(src: str, node, new_text: str) -> str:
    """Replace the exact source extent of `node` by `new_text`."""
    lines = src.splitlines(keepends=True)
    # byte offsets -> work on utf8 per line
    def off(lineno, col):
        pre = "".join(lines[: lineno - 1])
        line = lines[lineno - 1].encode("utf8")[:col].decode("utf8")
        return len(pre) + len(line)
    a = off(node.lineno, node.col_offset)
    b = off(node.end_lineno, node.end_col_offset)
    return src[:a] + new_text + src[b:]


def delete_stmt_text(src: str, node, replacement: str = "pass") -> str:
    """Replace a whole statement by `pass` keeping the indentation."""
    return replace_node_text(src, node, replacement)


def canon(func, node, depth: int = 3) -> str:
    """Normalised text of `node` after inlining the single-assignment locals of
    `func` (so that renaming / introducing a local does not change the text) and
    sorting the operands of commutative `and` / `or` / `|` chains."""
    import copy
    assigns = {}
    counts = {}
    for n in walk_no_nested(func):
        tgt = None
        if isinstance(n, ast.Assign) and len(n.targets) == 1 and isinstance(n.targets[0], ast.Name):
            tgt, val = n.targets[0].id, n.value
        elif isinstance(n, ast.AnnAssign) and isinstance(n.target, ast.Name) and n.value is not None:
            tgt, val = n.target.id, n.value
        if tgt:
            counts[tgt] = counts.get(tgt, 0) + 1
            assigns[tgt] = val
        if isinstance(n, (ast.For, ast.AugAssign)):
            for x in ast.walk(n.target):
                if isinstance(x, ast.Name):
                    counts[x.id] = counts.get(x.id, 0) + 2
    single = {k: v for k, v in assigns.items() if counts.get(k) == 1}

    class Inline(ast.NodeTransformer):
        def __init__(self, d):
            self.d = d

        def visit_Name(self, n):
            if isinstance(n.ctx, ast.Load) and n.id in single and self.d > 0:
                return Inline(self.d - 1).visit(copy.deepcopy(single[n.id]))
            return n

    class Sort(ast.NodeTransformer):
        def visit_BoolOp(self, n):
            self.generic_visit(n)
            n.values = sorted(n.values, key=norm)
            return n

        def visit_BinOp(self, n):
            self.generic_visit(n)
            if isinstance(n.op, ast.BitOr):
                ops = []

                def flat(x):
                    if isinstance(x, ast.BinOp) and isinstance(x.op, ast.BitOr):
                        flat(x.left)
                        flat(x.right)
                    else:
                        ops.append(x)
                flat(n)
                ops = sorted(ops, key=norm)
                out = ops[0]
                for o in ops[1:]:
                    out = ast.BinOp(left=out, op=ast.BitOr(), right=o)
                return out
            return n
    t = Sort().visit(Inline(depth).visit(copy.deepcopy(node)))
    return norm(ast.fix_missing_locations(t))


def expand_locals(node, fn, depth: int = 3, keep=()):
    """a copy of node where every local of fn that is assigned exactly once (plain `name = value`) is replaced by that value, so that
    `x = d.get(k); len(x) == 1` reads `len(d.get(k)) == 1`: rules that compare the text of a condition see through an extracted local"""
    import copy
    stores = {}
    for a in ast.walk(fn):
        if isinstance(a, ast.Name) and isinstance(a.ctx, (ast.Store, ast.Del)):
            stores[a.id] = stores.get(a.id, 0) + 1
    defs = {}
    for a in ast.walk(fn):
        if isinstance(a, ast.Assign) and len(a.targets) == 1 and isinstance(a.targets[0], ast.Name) and stores.get(a.targets[0].id) == 1:
            defs[a.targets[0].id] = a.value
        elif isinstance(a, ast.AnnAssign) and isinstance(a.target, ast.Name) and a.value is not None and stores.get(a.target.id) == 1:
            defs[a.target.id] = a.value

    class _E(ast.NodeTransformer):
        def visit_Name(self, n):
            if isinstance(n.ctx, ast.Load) and n.id in defs and n.id not in keep:
                return ast.copy_location(copy.deepcopy(defs[n.id]), n)
            return n
    out = copy.deepcopy(node)
    for _ in range(depth):
        before = ast.dump(out)
        out = _E().visit(out)
        if ast.dump(out) == before:
            break
    return out
